// tmprep: native helper for the solver-based checks. It never decides a property: it pushes corpus
// grammars through the real compiler and generator of the current /repo tree and writes the generated
// Go packages (plus metadata about them) into a scratch module that symgo and `go test` then load.
package main

import (
	"context"
	"encoding/json"
	"flag"
	"fmt"
	"os"
	"path/filepath"
	"strings"

	"github.com/inspirer/textmapper/compiler"
	"github.com/inspirer/textmapper/gen"
	"github.com/inspirer/textmapper/grammar"
	"github.com/inspirer/textmapper/status"
)

type item struct {
	Name string `json:"name"` // package directory under out/
	TM   string `json:"tm"`   // grammar text
	Stub bool   `json:"stub"` // replace the generated lexer by the token-array stub lexer
}

type meta struct {
	Name       string     `json:"name"`
	OK         bool       `json:"ok"`
	Errors     []string   `json:"errors"`
	Syms       []string   `json:"syms"`
	SymIDs     []string   `json:"sym_ids"`
	NumTokens  int        `json:"num_tokens"`
	Inputs     []inputM   `json:"inputs"`
	Rules      []ruleM    `json:"rules"`
	NumStates  int        `json:"num_states"`
	Final      []int      `json:"final_states"`
	SR, RR     int        `json:"-"`
	Files      []string   `json:"files"`
	Nonterms   []string   `json:"nonterms"`
	ErrorSym   int        `json:"error_symbol"`
	Recovering bool       `json:"recovering"`
	Sets       []setM     `json:"sets"`
	RangeTypes []string   `json:"range_types"`
	Lookaheads int        `json:"lookaheads"`
	LexStates  []string   `json:"lex_start_conditions"`
	Markers    []markerM  `json:"markers"`
	Optimized  bool       `json:"optimized"`
	Prec       [][]string `json:"prec"`
	HasListener bool      `json:"has_listener"`
	HasLalr     bool      `json:"has_lalr"`
	StateType   string    `json:"state_type"`
	NumRules    int       `json:"num_rules"`
}

type markerM struct {
	Name   string `json:"name"`
	States []int  `json:"states"`
}
type setM struct {
	Name      string `json:"name"`
	Terminals []int  `json:"terminals"`
}
type inputM struct {
	Nonterm   int  `json:"nonterm"` // symbol index (NumTokens + nonterminal index)
	NoEoi     bool `json:"noeoi"`
	Synthetic bool `json:"synthetic"`
}
type ruleM struct {
	LHS    int    `json:"lhs"` // symbol index
	RHS    []int  `json:"rhs"` // symbol indices
	Action int    `json:"action"`
	Type   int    `json:"type"`
	Text   string `json:"text"`
}

type dirWriter struct {
	dir   string
	files []string
}

func (w *dirWriter) Write(filename, content string) error {
	p := filepath.Join(w.dir, filename)
	if err := os.MkdirAll(filepath.Dir(p), 0o755); err != nil {
		return err
	}
	w.files = append(w.files, filename)
	return os.WriteFile(p, []byte(content), 0o644)
}

func main() {
	spec := flag.String("spec", "", "JSON file: [{name, tm, stub}]")
	out := flag.String("out", "", "output directory (scratch module root)")
	module := flag.String("module", "vgen", "module name of the scratch module")
	repo := flag.String("repo", "/repo", "path of the textmapper tree for the replace directive")
	flag.Parse()
	data, err := os.ReadFile(*spec)
	if err != nil {
		fatal(err)
	}
	var items []item
	if err := json.Unmarshal(data, &items); err != nil {
		fatal(err)
	}
	if err := os.MkdirAll(*out, 0o755); err != nil {
		fatal(err)
	}
	gomod := fmt.Sprintf("module %s\n\ngo 1.25\n\nrequire github.com/inspirer/textmapper v0.0.0\n\nreplace github.com/inspirer/textmapper => %s\n", *module, *repo)
	if err := os.WriteFile(filepath.Join(*out, "go.mod"), []byte(gomod), 0o644); err != nil {
		fatal(err)
	}
	if sum, err := os.ReadFile(filepath.Join(*repo, "go.sum")); err == nil {
		os.WriteFile(filepath.Join(*out, "go.sum"), sum, 0o644)
	}
	// keep the dependency in the build list even when no generated file imports it
	os.WriteFile(filepath.Join(*out, "deps.go"), []byte("package vgen\n\nimport _ \"github.com/inspirer/textmapper/status\"\n"), 0o644)
	var metas []meta
	for _, it := range items {
		metas = append(metas, process(it, *out))
	}
	md, _ := json.MarshalIndent(metas, "", " ")
	if err := os.WriteFile(filepath.Join(*out, "meta.json"), md, 0o644); err != nil {
		fatal(err)
	}
}

func process(it item, out string) (m meta) {
	m.Name = it.Name
	defer func() {
		if r := recover(); r != nil {
			m.OK = false
			m.Errors = append(m.Errors, fmt.Sprintf("PANIC: %v", r))
		}
	}()
	g, err := compiler.Compile(context.Background(), it.Name+".tm", it.TM, compiler.Params{})
	if err != nil {
		for _, e := range status.FromError(err) {
			m.Errors = append(m.Errors, e.Error())
		}
		if len(m.Errors) == 0 {
			m.Errors = append(m.Errors, err.Error())
		}
		return m
	}
	fill(&m, g)
	w := &dirWriter{dir: filepath.Join(out, it.Name)}
	if err := gen.Generate(g, w, gen.Options{}); err != nil {
		m.Errors = append(m.Errors, "generate: "+err.Error())
		return m
	}
	m.Files = w.files
	if it.Stub {
		os.Remove(filepath.Join(w.dir, "lexer.go"))
		os.Remove(filepath.Join(w.dir, "lexer_tables.go"))
		pkg := it.Name
		if i := strings.LastIndex(pkg, "/"); i >= 0 {
			pkg = pkg[i+1:]
		}
		tokPkg := g.Options.Package + "/token"
		os.WriteFile(filepath.Join(w.dir, "lexer.go"), []byte(stubLexer(pkg, tokPkg)), 0o644)
	}
	m.OK = true
	return m
}

func fill(m *meta, g *grammar.Grammar) {
	for _, s := range g.Syms {
		m.Syms = append(m.Syms, s.Name)
		m.SymIDs = append(m.SymIDs, s.ID)
	}
	m.NumTokens = g.NumTokens
	for _, s := range g.Sets {
		m.Sets = append(m.Sets, setM{Name: s.Name, Terminals: s.Terminals})
	}
	if g.Lexer != nil {
		m.LexStates = g.Lexer.StartConditions
	}
	p := g.Parser
	if p == nil {
		return
	}
	for _, in := range p.Inputs {
		m.Inputs = append(m.Inputs, inputM{Nonterm: g.NumTokens + in.Nonterm, NoEoi: in.NoEoi, Synthetic: in.Synthetic})
	}
	for _, nt := range p.Nonterms {
		m.Nonterms = append(m.Nonterms, nt.Name)
	}
	m.HasListener = p.Types != nil
	if p.Types != nil {
		for _, rt := range p.Types.RangeTypes {
			m.RangeTypes = append(m.RangeTypes, rt.Name)
		}
	}
	for _, pr := range p.Prec {
		row := []string{fmt.Sprint(pr.Associativity)}
		for _, t := range pr.Terminals {
			row = append(row, g.Syms[t].Name)
		}
		m.Prec = append(m.Prec, row)
	}
	m.ErrorSym = p.ErrorSymbol
	m.Recovering = p.IsRecovering
	for _, r := range p.Rules {
		rm := ruleM{LHS: int(r.LHS), Action: r.Action, Type: r.Type}
		for _, s := range r.RHS {
			if s.IsStateMarker() {
				continue
			}
			rm.RHS = append(rm.RHS, int(s))
		}
		m.Rules = append(m.Rules, rm)
	}
	if t := p.Tables; t != nil {
		m.NumStates = t.NumStates
		m.Final = t.FinalStates
		m.Lookaheads = len(t.Lookaheads)
		m.Optimized = t.Optimized != nil
		m.HasLalr = len(t.Lalr) > 0
		m.NumRules = len(t.RuleLen)
		for _, mk := range t.Markers {
			m.Markers = append(m.Markers, markerM{Name: mk.Name, States: mk.States})
		}
	}
}

func stubLexer(pkg, tokPkg string) string {
	return `package ` + pkg + `

import "` + tokPkg + `"

// Stub lexer installed by the verification harness: delivers a prepared token array with fixed
// positions (token i spans bytes [2i,2i+1), end-of-input sits at 2n).
type Lexer struct {
	toks []int32
	pos  int // index of the next token to deliver
	cur  int // index of the last delivered token (len(toks) = EOI)
	Delivered int
	// Concretize: deliver each token as a concrete value (the symbolic executor forks over the feasible
	// values at this point; natively a no-op). Used for table encodings whose lookups are data-dependent
	// array accesses rather than comparisons.
	Concretize bool
	// ValueOf, when set, supplies the semantic value of a token (default: the token's index).
	ValueOf func(tok int32, index int) interface{}
}

func (l *Lexer) InitTokens(toks []int32) {
	l.toks = toks
	l.pos = 0
	l.cur = 0
	l.Delivered = 0
}

func (l *Lexer) Next() token.Type {
	l.Delivered++
	if l.pos >= len(l.toks) {
		l.cur = len(l.toks)
		return token.EOI
	}
	l.cur = l.pos
	t := l.toks[l.pos]
	if l.Concretize {
		t = int32(verifConcretize(int(t)))
		l.toks[l.pos] = t
	}
	l.pos++
	return token.Type(t)
}

func (l *Lexer) Pos() (start, end int) {
	if l.cur >= len(l.toks) {
		return 2 * len(l.toks), 2 * len(l.toks)
	}
	return 2 * l.cur, 2*l.cur + 1
}

func (l *Lexer) Line() int          { return 1 }
func (l *Lexer) Column() int        { return 1 + 2*l.cur }
func (l *Lexer) Text() string       { return "" }
func (l *Lexer) Value() interface{} {
	if l.ValueOf != nil && l.cur < len(l.toks) {
		return l.ValueOf(l.toks[l.cur], l.cur)
	}
	return l.cur
}
func (l *Lexer) Copy() Lexer        { return *l }
`
}

func fatal(err error) {
	fmt.Fprintln(os.Stderr, "tmprep:", err)
	os.Exit(2)
}
