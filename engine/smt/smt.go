// Package smt drives one long-lived SMT solver process over stdin/stdout.
package smt

import (
	"bufio"
	"fmt"
	"io"
	"os/exec"
	"strconv"
	"strings"
	"time"

	"symgo/term"
)

type Result int

const (
	Unsat Result = iota
	Sat
	Unknown
)

func (r Result) String() string { return [...]string{"unsat", "sat", "unknown"}[r] }

type Stats struct {
	Queries, Unsat, Sat, Unknown int
	Time                         time.Duration
	MaxQuery                     time.Duration
	Errors                       int
}

type Solver struct {
	Name    string
	args    []string
	cmd     *exec.Cmd
	in      io.WriteCloser
	out     *bufio.Reader
	st      *term.Store
	Stats   Stats
	Timeout int // ms per query
	Log     io.Writer
	LastErr string
	stack   []*term.Term // assertions currently held on the solver's push stack (one level each)
}

// New starts a solver. kind: "z3", "z3-new", "cvc5".
func New(kind string, st *term.Store, timeoutMs int) (*Solver, error) {
	s := &Solver{Name: kind, st: st, Timeout: timeoutMs}
	switch kind {
	case "z3", "z3-new":
		s.args = []string{kind, "-in"}
	case "cvc5":
		s.args = []string{"cvc5", "--incremental", "--produce-models", "--lang=smt2", fmt.Sprintf("--tlimit-per=%d", timeoutMs)}
	default:
		return nil, fmt.Errorf("unknown solver %q", kind)
	}
	if err := s.start(); err != nil {
		return nil, err
	}
	return s, nil
}

func (s *Solver) start() error {
	s.cmd = exec.Command(s.args[0], s.args[1:]...)
	in, err := s.cmd.StdinPipe()
	if err != nil {
		return err
	}
	out, err := s.cmd.StdoutPipe()
	if err != nil {
		return err
	}
	s.cmd.Stderr = s.cmd.Stdout
	if err := s.cmd.Start(); err != nil {
		return err
	}
	s.in = in
	s.out = bufio.NewReaderSize(out, 1<<16)
	s.st.ResetDefined()
	s.stack = nil
	if s.Name == "cvc5" {
		s.send("(set-option :global-declarations true)\n(set-logic ALL)\n")
	} else {
		s.send(fmt.Sprintf("(set-option :global-declarations true)\n(set-option :timeout %d)\n(set-option :model true)\n", s.Timeout))
	}
	return nil
}

func (s *Solver) Close() {
	if s.cmd != nil {
		s.in.Close()
		s.cmd.Process.Kill()
		s.cmd.Wait()
		s.cmd = nil
	}
}

func (s *Solver) send(text string) {
	if s.Log != nil {
		io.WriteString(s.Log, text)
	}
	io.WriteString(s.in, text)
}

func (s *Solver) readLine() (string, error) {
	line, err := s.out.ReadString('\n')
	return strings.TrimSpace(line), err
}

// Check decides satisfiability of base ∧ extra. base (oldest first) is kept on the solver's
// assertion stack between calls, so consecutive queries sharing a prefix are incremental. If sat and
// vars != nil, the model restricted to vars is returned.
func (s *Solver) Check(base []*term.Term, extra []*term.Term, vars []*term.Term) (Result, map[string]uint64) {
	t0 := time.Now()
	var sb strings.Builder
	for _, a := range base {
		s.st.Define(&sb, a)
	}
	for _, a := range extra {
		s.st.Define(&sb, a)
	}
	for _, v := range vars {
		s.st.Define(&sb, v)
	}
	if s.st.Preamble.Len() > 0 {
		// constant-table contents: assert them outside every scope, or a later (pop) would forget them
		pre := s.st.Preamble.String()
		s.st.Preamble.Reset()
		defs := sb.String()
		sb.Reset()
		if n := len(s.stack); n > 0 {
			fmt.Fprintf(&sb, "(pop %d)\n", n)
			s.stack = s.stack[:0]
		}
		sb.WriteString(pre)
		sb.WriteString(defs)
	}
	lcp := 0
	for lcp < len(s.stack) && lcp < len(base) && s.stack[lcp] == base[lcp] {
		lcp++
	}
	if n := len(s.stack) - lcp; n > 0 {
		fmt.Fprintf(&sb, "(pop %d)\n", n)
		s.stack = s.stack[:lcp]
	}
	for _, a := range base[lcp:] {
		sb.WriteString("(push 1)\n(assert ")
		sb.WriteString(a.Ref())
		sb.WriteString(")\n")
		s.stack = append(s.stack, a)
	}
	sb.WriteString("(push 1)\n")
	for _, a := range extra {
		sb.WriteString("(assert ")
		sb.WriteString(a.Ref())
		sb.WriteString(")\n")
	}
	sb.WriteString("(check-sat)\n")
	s.send(sb.String())
	res := Unknown
	sawErr := false
	for {
		line, err := s.readLine()
		if err != nil {
			s.Stats.Errors++
			s.LastErr = "solver died: " + err.Error()
			s.Close()
			s.start()
			s.account(Unknown, t0)
			return Unknown, nil
		}
		if line == "" {
			continue
		}
		if strings.HasPrefix(line, "(error") {
			s.Stats.Errors++
			s.LastErr = line
			sawErr = true // the verdict line still follows, but it is not believed
			continue
		}
		switch line {
		case "sat":
			res = Sat
		case "unsat":
			res = Unsat
		case "unknown", "timeout":
			res = Unknown
		default:
			continue
		}
		break
	}
	if sawErr {
		res = Unknown
	}
	var model map[string]uint64
	if res == Sat && len(vars) > 0 {
		model = map[string]uint64{}
		// query in chunks to keep lines manageable
		const chunk = 200
		for i := 0; i < len(vars); i += chunk {
			j := i + chunk
			if j > len(vars) {
				j = len(vars)
			}
			var q strings.Builder
			q.WriteString("(get-value (")
			for _, v := range vars[i:j] {
				q.WriteString(v.Ref())
				q.WriteByte(' ')
			}
			q.WriteString("))\n")
			s.send(q.String())
			txt := s.readSexpr()
			parseValues(txt, model)
		}
	}
	s.send("(pop 1)\n")
	s.account(res, t0)
	return res, model
}

func (s *Solver) account(r Result, t0 time.Time) {
	d := time.Since(t0)
	s.Stats.Queries++
	s.Stats.Time += d
	if d > s.Stats.MaxQuery {
		s.Stats.MaxQuery = d
	}
	switch r {
	case Sat:
		s.Stats.Sat++
	case Unsat:
		s.Stats.Unsat++
	default:
		s.Stats.Unknown++
	}
}

// readSexpr reads one balanced s-expression (possibly spanning lines).
func (s *Solver) readSexpr() string {
	var sb strings.Builder
	depth := 0
	started := false
	for {
		b, err := s.out.ReadByte()
		if err != nil {
			return sb.String()
		}
		sb.WriteByte(b)
		if b == '(' {
			depth++
			started = true
		} else if b == ')' {
			depth--
			if started && depth == 0 {
				return sb.String()
			}
		}
	}
}

func parseValues(txt string, model map[string]uint64) {
	// format: ((name value) (name value) ...), value: #x.. | #b.. | true | false
	toks := strings.FieldsFunc(txt, func(r rune) bool { return r == '(' || r == ')' || r == ' ' || r == '\n' || r == '\t' || r == '\r' })
	for i := 0; i+1 < len(toks); i += 2 {
		name, val := toks[i], toks[i+1]
		var v uint64
		switch {
		case val == "true":
			v = 1
		case val == "false":
			v = 0
		case strings.HasPrefix(val, "#x"):
			v, _ = strconv.ParseUint(val[2:], 16, 64)
		case strings.HasPrefix(val, "#b"):
			v, _ = strconv.ParseUint(val[2:], 2, 64)
		case val == "_":
			// (_ bvN w) form: tokens: _ bvN w
			if i+3 < len(toks) && strings.HasPrefix(toks[i+2], "bv") {
				v, _ = strconv.ParseUint(toks[i+2][2:], 10, 64)
				i += 2
			}
		}
		model[name] = v
	}
}


// OneShot decides the conjunction of asserts with a fresh process of the given solver (no shared
// state with the incremental session). Used as a second opinion when the primary answers unknown.
func OneShot(kind string, st *term.Store, asserts []*term.Term, vars []*term.Term, timeoutMs int) (Result, map[string]uint64) {
	var sb strings.Builder
	switch kind {
	case "cvc5":
		sb.WriteString("(set-logic ALL)\n(set-option :produce-models true)\n")
	default:
		fmt.Fprintf(&sb, "(set-option :timeout %d)\n(set-option :model true)\n", timeoutMs)
	}
	st.WriteStandalone(&sb, asserts, vars)
	sb.WriteString("(check-sat)\n")
	if len(vars) > 0 {
		sb.WriteString("(get-value (")
		for _, v := range vars {
			sb.WriteString(v.Ref())
			sb.WriteByte(' ')
		}
		sb.WriteString("))\n")
	}
	var args []string
	switch kind {
	case "cvc5":
		args = []string{"cvc5", "--lang=smt2", fmt.Sprintf("--tlimit=%d", timeoutMs)}
	default:
		args = []string{kind, "-in"}
	}
	cmd := exec.Command(args[0], args[1:]...)
	cmd.Stdin = strings.NewReader(sb.String())
	done := make(chan struct{})
	var out []byte
	go func() {
		out, _ = cmd.CombinedOutput()
		close(done)
	}()
	select {
	case <-done:
	case <-time.After(time.Duration(timeoutMs+5000) * time.Millisecond):
		if cmd.Process != nil {
			cmd.Process.Kill()
		}
		<-done
		return Unknown, nil
	}
	txt := string(out)
	if strings.Contains(txt, "(error") {
		// get-value after unsat produces an error line; only errors before the verdict matter
		if i := strings.Index(txt, "(error"); i >= 0 {
			pre := txt[:i]
			if !strings.Contains(pre, "unsat") {
				return Unknown, nil
			}
		}
	}
	lines := strings.Split(txt, "\n")
	for i, l := range lines {
		switch strings.TrimSpace(l) {
		case "unsat":
			return Unsat, nil
		case "sat":
			m := map[string]uint64{}
			parseValues(strings.Join(lines[i+1:], "\n"), m)
			return Sat, m
		case "unknown", "timeout":
			return Unknown, nil
		}
	}
	return Unknown, nil
}
