// Package term implements hash-consed bit-vector / boolean terms with eager
// simplification, a concrete evaluator and an SMT-LIB2 printer.
package term

import (
	"fmt"
	"math/bits"
	"strings"
)

type Op uint8

const (
	OpConst Op = iota
	OpVar
	OpAdd
	OpSub
	OpMul
	OpUDiv
	OpSDiv
	OpURem
	OpSRem
	OpAnd
	OpOr
	OpXor
	OpShl
	OpLShr
	OpAShr
	OpNot // bvnot
	OpNeg
	OpEq
	OpUlt
	OpUle
	OpSlt
	OpSle
	OpIte
	OpExtract // Val = lo bit, W = result width
	OpZExt
	OpSExt
	OpBAnd
	OpBOr
	OpBNot
	OpSelect // Val = table id, A = index
)

var opNames = [...]string{"const", "var", "bvadd", "bvsub", "bvmul", "bvudiv", "bvsdiv", "bvurem", "bvsrem",
	"bvand", "bvor", "bvxor", "bvshl", "bvlshr", "bvashr", "bvnot", "bvneg", "=", "bvult", "bvule", "bvslt", "bvsle",
	"ite", "extract", "zext", "sext", "and", "or", "not", "select"}

// Term is an immutable hash-consed term. W == 0 means Bool, otherwise a bit-vector of W bits.
type Term struct {
	ID      int
	Op      Op
	W       uint8
	A, B, C *Term
	Val     uint64
	Name    string

	// memoised evaluation
	evStamp int
	evVal   uint64
	// printer state
	defined bool
	// variables occurring in the term (IDs of OpVar terms, sorted), computed lazily
	vars     []int
	varsDone bool
}

type key struct {
	op      Op
	w       uint8
	a, b, c int
	val     uint64
	name    string
}

// Table is a constant lookup table usable with OpSelect.
type Table struct {
	ID      int
	Vals    []uint64
	W       uint8 // element width
	IW      uint8 // index width used in SMT (bits)
	defined bool
	Name    string
}

type Store struct {
	terms  map[key]*Term
	all    []*Term
	Tables []*Table
	True   *Term
	False  *Term
	nvars  int
	// Preamble collects solver text that must be asserted at stack level 0 (constant table contents).
	Preamble strings.Builder
}

func NewStore() *Store {
	s := &Store{terms: map[key]*Term{}}
	s.False = s.mk(OpConst, 0, nil, nil, nil, 0, "")
	s.True = s.mk(OpConst, 0, nil, nil, nil, 1, "")
	return s
}

func id(t *Term) int {
	if t == nil {
		return -1
	}
	return t.ID
}

func (s *Store) mk(op Op, w uint8, a, b, c *Term, val uint64, name string) *Term {
	k := key{op, w, id(a), id(b), id(c), val, name}
	if t, ok := s.terms[k]; ok {
		return t
	}
	t := &Term{ID: len(s.all), Op: op, W: w, A: a, B: b, C: c, Val: val, Name: name}
	s.terms[k] = t
	s.all = append(s.all, t)
	return t
}

func (s *Store) NumTerms() int { return len(s.all) }

func mask(w uint8) uint64 {
	if w >= 64 {
		return ^uint64(0)
	}
	return (uint64(1) << w) - 1
}

func (s *Store) Const(w uint8, v uint64) *Term {
	if w == 0 {
		if v != 0 {
			return s.True
		}
		return s.False
	}
	return s.mk(OpConst, w, nil, nil, nil, v&mask(w), "")
}

func (s *Store) Bool(b bool) *Term {
	if b {
		return s.True
	}
	return s.False
}

// Var creates (or returns) a variable with the given name.
func (s *Store) Var(name string, w uint8) *Term {
	return s.mk(OpVar, w, nil, nil, nil, 0, name)
}

func (t *Term) IsConst() bool { return t.Op == OpConst }
func (t *Term) IsTrue() bool  { return t.Op == OpConst && t.W == 0 && t.Val == 1 }
func (t *Term) IsFalse() bool { return t.Op == OpConst && t.W == 0 && t.Val == 0 }

func sext(v uint64, w uint8) int64 {
	if w >= 64 {
		return int64(v)
	}
	sh := 64 - uint(w)
	return int64(v<<sh) >> sh
}

// SignedVal returns the constant value sign-extended.
func (t *Term) SignedVal() int64 { return sext(t.Val, t.W) }

func evalBin(op Op, w uint8, a, b uint64) uint64 {
	m := mask(w)
	switch op {
	case OpAdd:
		return (a + b) & m
	case OpSub:
		return (a - b) & m
	case OpMul:
		return (a * b) & m
	case OpUDiv:
		if b == 0 {
			return m
		}
		return (a / b) & m
	case OpURem:
		if b == 0 {
			return a
		}
		return (a % b) & m
	case OpSDiv:
		sa, sb := sext(a, w), sext(b, w)
		if sb == 0 {
			if sa >= 0 {
				return m
			}
			return 1
		}
		if sb == -1 {
			return uint64(-sa) & m
		}
		return uint64(sa/sb) & m
	case OpSRem:
		sa, sb := sext(a, w), sext(b, w)
		if sb == 0 {
			return a
		}
		if sb == -1 {
			return 0
		}
		return uint64(sa%sb) & m
	case OpAnd:
		return a & b
	case OpOr:
		return a | b
	case OpXor:
		return a ^ b
	case OpShl:
		if b >= uint64(w) {
			return 0
		}
		return (a << b) & m
	case OpLShr:
		if b >= uint64(w) {
			return 0
		}
		return (a >> b) & m
	case OpAShr:
		sa := sext(a, w)
		if b >= uint64(w) {
			if sa < 0 {
				return m
			}
			return 0
		}
		return uint64(sa>>b) & m
	}
	panic("evalBin: bad op")
}

func evalCmp(op Op, w uint8, a, b uint64) bool {
	switch op {
	case OpEq:
		return a == b
	case OpUlt:
		return a < b
	case OpUle:
		return a <= b
	case OpSlt:
		return sext(a, w) < sext(b, w)
	case OpSle:
		return sext(a, w) <= sext(b, w)
	}
	panic("evalCmp: bad op")
}

func b2u(b bool) uint64 {
	if b {
		return 1
	}
	return 0
}

// Bin builds a binary bit-vector operation.
func (s *Store) Bin(op Op, a, b *Term) *Term {
	if a.W != b.W || a.W == 0 {
		panic(fmt.Sprintf("term.Bin %s: width mismatch %d vs %d", opNames[op], a.W, b.W))
	}
	w := a.W
	if a.IsConst() && b.IsConst() {
		return s.Const(w, evalBin(op, w, a.Val, b.Val))
	}
	switch op {
	case OpAdd:
		if a.IsConst() {
			a, b = b, a
		}
		if b.IsConst() {
			if b.Val == 0 {
				return a
			}
			// (x + c1) + c2
			if a.Op == OpAdd && a.B.IsConst() {
				return s.Bin(OpAdd, a.A, s.Const(w, a.B.Val+b.Val))
			}
			if a.Op == OpSub && a.B.IsConst() {
				return s.Bin(OpAdd, a.A, s.Const(w, b.Val-a.B.Val))
			}
		}
	case OpSub:
		if b.IsConst() {
			if b.Val == 0 {
				return a
			}
			return s.Bin(OpAdd, a, s.Const(w, -b.Val))
		}
		if a == b {
			return s.Const(w, 0)
		}
	case OpMul:
		if a.IsConst() {
			a, b = b, a
		}
		if b.IsConst() {
			if b.Val == 0 {
				return b
			}
			if b.Val == 1 {
				return a
			}
		}
	case OpAnd:
		if a.IsConst() {
			a, b = b, a
		}
		if b.IsConst() {
			if b.Val == 0 {
				return b
			}
			if b.Val == mask(w) {
				return a
			}
		}
		if a == b {
			return a
		}
	case OpOr:
		if a.IsConst() {
			a, b = b, a
		}
		if b.IsConst() {
			if b.Val == 0 {
				return a
			}
			if b.Val == mask(w) {
				return b
			}
		}
		if a == b {
			return a
		}
	case OpXor:
		if a.IsConst() {
			a, b = b, a
		}
		if b.IsConst() && b.Val == 0 {
			return a
		}
		if a == b {
			return s.Const(w, 0)
		}
	case OpShl, OpLShr, OpAShr:
		if b.IsConst() && b.Val == 0 {
			return a
		}
		if b.IsConst() && b.Val >= uint64(w) && op != OpAShr {
			return s.Const(w, 0)
		}
	case OpUDiv, OpSDiv:
		if b.IsConst() && b.Val == 1 {
			return a
		}
	}
	// push operations with a constant operand through ite with constant arms
	if b.IsConst() && a.Op == OpIte && a.B.IsConst() && a.C.IsConst() {
		return s.Ite(a.A, s.Bin(op, a.B, b), s.Bin(op, a.C, b))
	}
	if a.IsConst() && b.Op == OpIte && b.B.IsConst() && b.C.IsConst() {
		return s.Ite(b.A, s.Bin(op, a, b.B), s.Bin(op, a, b.C))
	}
	return s.mk(op, w, a, b, nil, 0, "")
}

func (s *Store) Add(a, b *Term) *Term { return s.Bin(OpAdd, a, b) }
func (s *Store) Sub(a, b *Term) *Term { return s.Bin(OpSub, a, b) }

// Cmp builds a comparison (result Bool).
func (s *Store) Cmp(op Op, a, b *Term) *Term {
	if a.W != b.W {
		panic(fmt.Sprintf("term.Cmp %s: width mismatch %d vs %d", opNames[op], a.W, b.W))
	}
	if a.W == 0 {
		if op != OpEq {
			panic("term.Cmp: ordered comparison of bools")
		}
		// bool equality
		if a.IsConst() {
			a, b = b, a
		}
		if b.IsTrue() {
			return a
		}
		if b.IsFalse() {
			return s.Not(a)
		}
		if a == b {
			return s.True
		}
		if a.ID > b.ID {
			a, b = b, a
		}
		return s.mk(OpEq, 0, a, b, nil, 0, "")
	}
	if a.IsConst() && b.IsConst() {
		return s.Bool(evalCmp(op, a.W, a.Val, b.Val))
	}
	if a == b {
		return s.Bool(op == OpEq || op == OpUle || op == OpSle)
	}
	w := a.W
	switch op {
	case OpEq:
		if a.IsConst() {
			a, b = b, a
		}
		if b.IsConst() {
			// ite(c, k1, k2) == k
			if a.Op == OpIte {
				if a.B.IsConst() || a.C.IsConst() {
					return s.Ite(a.A, s.Cmp(OpEq, a.B, b), s.Cmp(OpEq, a.C, b))
				}
			}
			// zext(x) == k
			if a.Op == OpZExt {
				if b.Val > mask(a.A.W) {
					return s.False
				}
				return s.Cmp(OpEq, a.A, s.Const(a.A.W, b.Val))
			}
			if a.Op == OpSExt {
				if uint64(sext(b.Val&mask(a.A.W), a.A.W))&mask(w) != b.Val {
					return s.False
				}
				return s.Cmp(OpEq, a.A, s.Const(a.A.W, b.Val))
			}
			// x + c == k
			if a.Op == OpAdd && a.B.IsConst() {
				return s.Cmp(OpEq, a.A, s.Const(w, b.Val-a.B.Val))
			}
		} else if a.ID > b.ID {
			a, b = b, a
		}
	case OpUlt:
		if b.IsConst() && b.Val == 0 {
			return s.False
		}
		if a.IsConst() && a.Val == mask(w) {
			return s.False
		}
		if b.IsConst() && a.Op == OpZExt && b.Val > mask(a.A.W) {
			return s.True
		}
	case OpUle:
		if a.IsConst() && a.Val == 0 {
			return s.True
		}
		if b.IsConst() && b.Val == mask(w) {
			return s.True
		}
		if b.IsConst() && a.Op == OpZExt && b.Val >= mask(a.A.W) {
			return s.True
		}
	}
	if (a.IsConst() || b.IsConst()) && op != OpEq {
		x, k := a, b
		if a.IsConst() {
			x, k = b, a
		}
		if x.Op == OpIte && x.B.IsConst() && x.C.IsConst() {
			if a.IsConst() {
				return s.Ite(x.A, s.Cmp(op, k, x.B), s.Cmp(op, k, x.C))
			}
			return s.Ite(x.A, s.Cmp(op, x.B, k), s.Cmp(op, x.C, k))
		}
	}
	return s.mk(op, 0, a, b, nil, 0, "")
}

func (s *Store) Eq(a, b *Term) *Term { return s.Cmp(OpEq, a, b) }

func (s *Store) Not(a *Term) *Term {
	if a.W != 0 {
		panic("term.Not: not bool")
	}
	if a.IsConst() {
		return s.Bool(a.Val == 0)
	}
	if a.Op == OpBNot {
		return a.A
	}
	return s.mk(OpBNot, 0, a, nil, nil, 0, "")
}

func (s *Store) And(a, b *Term) *Term {
	if a.W != 0 || b.W != 0 {
		panic("term.And: not bool")
	}
	if a.IsFalse() || b.IsFalse() {
		return s.False
	}
	if a.IsTrue() {
		return b
	}
	if b.IsTrue() {
		return a
	}
	if a == b {
		return a
	}
	if s.Not(a) == b {
		return s.False
	}
	if a.ID > b.ID {
		a, b = b, a
	}
	return s.mk(OpBAnd, 0, a, b, nil, 0, "")
}

func (s *Store) Or(a, b *Term) *Term {
	if a.W != 0 || b.W != 0 {
		panic("term.Or: not bool")
	}
	if a.IsTrue() || b.IsTrue() {
		return s.True
	}
	if a.IsFalse() {
		return b
	}
	if b.IsFalse() {
		return a
	}
	if a == b {
		return a
	}
	if s.Not(a) == b {
		return s.True
	}
	if a.ID > b.ID {
		a, b = b, a
	}
	return s.mk(OpBOr, 0, a, b, nil, 0, "")
}

func (s *Store) Implies(a, b *Term) *Term { return s.Or(s.Not(a), b) }

func (s *Store) Ite(c, a, b *Term) *Term {
	if c.W != 0 {
		panic("term.Ite: cond not bool")
	}
	if a.W != b.W {
		panic(fmt.Sprintf("term.Ite: width mismatch %d vs %d", a.W, b.W))
	}
	if c.IsTrue() {
		return a
	}
	if c.IsFalse() {
		return b
	}
	if a == b {
		return a
	}
	if a.W == 0 {
		if a.IsTrue() && b.IsFalse() {
			return c
		}
		if a.IsFalse() && b.IsTrue() {
			return s.Not(c)
		}
		if a.IsTrue() {
			return s.Or(c, b)
		}
		if a.IsFalse() {
			return s.And(s.Not(c), b)
		}
		if b.IsTrue() {
			return s.Or(s.Not(c), a)
		}
		if b.IsFalse() {
			return s.And(c, a)
		}
	}
	if c.Op == OpBNot {
		return s.Ite(c.A, b, a)
	}
	// ite(c, x, ite(c, y, z)) = ite(c, x, z)
	if b.Op == OpIte && b.A == c {
		return s.Ite(c, a, b.C)
	}
	if a.Op == OpIte && a.A == c {
		return s.Ite(c, a.B, b)
	}
	return s.mk(OpIte, a.W, c, a, b, 0, "")
}

func (s *Store) BvNot(a *Term) *Term {
	if a.IsConst() {
		return s.Const(a.W, ^a.Val)
	}
	if a.Op == OpNot {
		return a.A
	}
	return s.mk(OpNot, a.W, a, nil, nil, 0, "")
}

func (s *Store) Neg(a *Term) *Term {
	if a.IsConst() {
		return s.Const(a.W, -a.Val)
	}
	return s.mk(OpNeg, a.W, a, nil, nil, 0, "")
}

// Extract returns bits [lo, lo+w) of a.
func (s *Store) Extract(a *Term, lo, w uint8) *Term {
	if lo == 0 && w == a.W {
		return a
	}
	if a.IsConst() {
		return s.Const(w, a.Val>>lo)
	}
	if lo == 0 && (a.Op == OpZExt || a.Op == OpSExt) {
		if a.A.W == w {
			return a.A
		}
		if a.A.W > w {
			return s.Extract(a.A, 0, w)
		}
		if a.Op == OpZExt {
			return s.ZExt(a.A, w)
		}
		return s.SExt(a.A, w)
	}
	if a.Op == OpIte && a.B.IsConst() && a.C.IsConst() {
		return s.Ite(a.A, s.Extract(a.B, lo, w), s.Extract(a.C, lo, w))
	}
	return s.mk(OpExtract, w, a, nil, nil, uint64(lo), "")
}

func (s *Store) ZExt(a *Term, w uint8) *Term {
	if a.W == w {
		return a
	}
	if a.W > w {
		panic("term.ZExt: narrowing")
	}
	if a.IsConst() {
		return s.Const(w, a.Val)
	}
	if a.Op == OpZExt {
		return s.ZExt(a.A, w)
	}
	if a.Op == OpIte && a.B.IsConst() && a.C.IsConst() {
		return s.Ite(a.A, s.ZExt(a.B, w), s.ZExt(a.C, w))
	}
	return s.mk(OpZExt, w, a, nil, nil, 0, "")
}

func (s *Store) SExt(a *Term, w uint8) *Term {
	if a.W == w {
		return a
	}
	if a.W > w {
		panic("term.SExt: narrowing")
	}
	if a.IsConst() {
		return s.Const(w, uint64(sext(a.Val, a.W)))
	}
	if a.Op == OpSExt {
		return s.SExt(a.A, w)
	}
	if a.Op == OpZExt {
		return s.ZExt(a.A, w)
	}
	if a.Op == OpIte && a.B.IsConst() && a.C.IsConst() {
		return s.Ite(a.A, s.SExt(a.B, w), s.SExt(a.C, w))
	}
	return s.mk(OpSExt, w, a, nil, nil, 0, "")
}

// NewTable registers a constant table.
func (s *Store) NewTable(name string, vals []uint64, w uint8) *Table {
	iw := uint8(bits.Len(uint(len(vals))))
	if iw < 1 {
		iw = 1
	}
	t := &Table{ID: len(s.Tables), Vals: vals, W: w, IW: iw, Name: name}
	s.Tables = append(s.Tables, t)
	return t
}

// Select reads table[idx]; the caller guarantees idx < len(table) on all models of interest.
// idx may have any width >= table index width.
func (s *Store) Select(t *Table, idx *Term) *Term {
	if idx.IsConst() {
		if idx.Val < uint64(len(t.Vals)) {
			return s.Const(t.W, t.Vals[idx.Val])
		}
		return s.Const(t.W, 0)
	}
	var ix *Term
	if idx.W > t.IW {
		ix = s.Extract(idx, 0, t.IW)
	} else if idx.W < t.IW {
		ix = s.ZExt(idx, t.IW)
	} else {
		ix = idx
	}
	if ix.Op == OpIte && ix.B.IsConst() && ix.C.IsConst() {
		return s.Ite(ix.A, s.Select(t, ix.B), s.Select(t, ix.C))
	}
	return s.mk(OpSelect, t.W, ix, nil, nil, uint64(t.ID), "")
}

// ---------------------------------------------------------------------------
// Evaluation

// Model is an assignment of variables.
type Model struct {
	Stamp int
	Vals  map[string]uint64
}

var stampCounter int

func NewModel(vals map[string]uint64) *Model {
	stampCounter++
	return &Model{Stamp: stampCounter, Vals: vals}
}

// Eval evaluates t under m (unassigned variables are 0).
func (s *Store) Eval(t *Term, m *Model) uint64 {
	if t.Op == OpConst {
		return t.Val
	}
	if t.evStamp == m.Stamp {
		return t.evVal
	}
	var v uint64
	switch t.Op {
	case OpVar:
		v = m.Vals[t.Name] & maskb(t.W)
	case OpAdd, OpSub, OpMul, OpUDiv, OpSDiv, OpURem, OpSRem, OpAnd, OpOr, OpXor, OpShl, OpLShr, OpAShr:
		v = evalBin(t.Op, t.W, s.Eval(t.A, m), s.Eval(t.B, m))
	case OpNot:
		v = ^s.Eval(t.A, m) & mask(t.W)
	case OpNeg:
		v = -s.Eval(t.A, m) & mask(t.W)
	case OpEq, OpUlt, OpUle, OpSlt, OpSle:
		v = b2u(evalCmp(t.Op, t.A.W, s.Eval(t.A, m), s.Eval(t.B, m)))
	case OpIte:
		if s.Eval(t.A, m) != 0 {
			v = s.Eval(t.B, m)
		} else {
			v = s.Eval(t.C, m)
		}
	case OpExtract:
		v = (s.Eval(t.A, m) >> t.Val) & mask(t.W)
	case OpZExt:
		v = s.Eval(t.A, m)
	case OpSExt:
		v = uint64(sext(s.Eval(t.A, m), t.A.W)) & mask(t.W)
	case OpBAnd:
		v = s.Eval(t.A, m) & s.Eval(t.B, m)
	case OpBOr:
		v = s.Eval(t.A, m) | s.Eval(t.B, m)
	case OpBNot:
		v = 1 - s.Eval(t.A, m)
	case OpSelect:
		tb := s.Tables[t.Val]
		i := s.Eval(t.A, m)
		if i < uint64(len(tb.Vals)) {
			v = tb.Vals[i]
		}
	default:
		panic("Eval: bad op")
	}
	t.evStamp = m.Stamp
	t.evVal = v
	return v
}

func maskb(w uint8) uint64 {
	if w == 0 {
		return 1
	}
	return mask(w)
}

// Vars collects the variables occurring in the given terms.
func (s *Store) Vars(ts []*Term) []*Term {
	seen := map[int]bool{}
	var out []*Term
	var walk func(t *Term)
	walk = func(t *Term) {
		if t == nil || seen[t.ID] {
			return
		}
		seen[t.ID] = true
		if t.Op == OpVar {
			out = append(out, t)
			return
		}
		walk(t.A)
		walk(t.B)
		walk(t.C)
	}
	for _, t := range ts {
		walk(t)
	}
	return out
}

// Size returns the number of distinct nodes reachable from t.
func (s *Store) Size(t *Term) int {
	seen := map[int]bool{}
	var walk func(t *Term)
	walk = func(t *Term) {
		if t == nil || seen[t.ID] {
			return
		}
		seen[t.ID] = true
		walk(t.A)
		walk(t.B)
		walk(t.C)
	}
	walk(t)
	return len(seen)
}

// ---------------------------------------------------------------------------
// SMT-LIB printing. Every non-leaf term is emitted once as a zero-arity define-fun.

func sortOf(w uint8) string {
	if w == 0 {
		return "Bool"
	}
	return fmt.Sprintf("(_ BitVec %d)", w)
}

func constStr(w uint8, v uint64) string {
	if w == 0 {
		if v != 0 {
			return "true"
		}
		return "false"
	}
	if w%4 == 0 {
		return fmt.Sprintf("#x%0*x", int(w/4), v)
	}
	return fmt.Sprintf("#b%0*b", int(w), v)
}

// Ref returns the SMT name of t (valid after Define).
func (t *Term) Ref() string {
	switch t.Op {
	case OpConst:
		return constStr(t.W, t.Val)
	case OpVar:
		return t.Name
	}
	return fmt.Sprintf("t%d", t.ID)
}

// Define appends to sb the declarations/definitions needed for t that have not been emitted yet.
func (s *Store) Define(sb *strings.Builder, t *Term) {
	if t == nil || t.defined {
		return
	}
	// iterative post-order to avoid deep recursion
	type fr struct {
		t *Term
		k int
	}
	stack := []fr{{t, 0}}
	for len(stack) > 0 {
		f := &stack[len(stack)-1]
		x := f.t
		if x.defined {
			stack = stack[:len(stack)-1]
			continue
		}
		var child *Term
		for f.k < 3 {
			switch f.k {
			case 0:
				child = x.A
			case 1:
				child = x.B
			case 2:
				child = x.C
			}
			f.k++
			if child != nil && !child.defined {
				break
			}
			child = nil
		}
		if child != nil {
			stack = append(stack, fr{child, 0})
			continue
		}
		s.emit(sb, x)
		x.defined = true
		stack = stack[:len(stack)-1]
	}
}

func (s *Store) emit(sb *strings.Builder, t *Term) {
	switch t.Op {
	case OpConst:
		return
	case OpVar:
		fmt.Fprintf(sb, "(declare-const %s %s)\n", t.Name, sortOf(t.W))
		return
	}
	var body string
	switch t.Op {
	case OpExtract:
		body = fmt.Sprintf("((_ extract %d %d) %s)", int(t.Val)+int(t.W)-1, t.Val, t.A.Ref())
	case OpZExt:
		body = fmt.Sprintf("((_ zero_extend %d) %s)", t.W-t.A.W, t.A.Ref())
	case OpSExt:
		body = fmt.Sprintf("((_ sign_extend %d) %s)", t.W-t.A.W, t.A.Ref())
	case OpSelect:
		tb := s.Tables[t.Val]
		if !tb.defined {
			tb.defined = true
			// table contents are assertions: they must live at solver stack level 0, so they go to the
			// preamble, which the solver driver emits after popping every open scope
			fmt.Fprintf(&s.Preamble, "(declare-const T%d (Array (_ BitVec %d) (_ BitVec %d)))\n", tb.ID, tb.IW, tb.W)
			for i, v := range tb.Vals {
				fmt.Fprintf(&s.Preamble, "(assert (= (select T%d %s) %s))\n", tb.ID, constStr(tb.IW, uint64(i)), constStr(tb.W, v))
			}
		}
		body = fmt.Sprintf("(select T%d %s)", tb.ID, t.A.Ref())
	case OpIte:
		body = fmt.Sprintf("(ite %s %s %s)", t.A.Ref(), t.B.Ref(), t.C.Ref())
	case OpNot, OpNeg, OpBNot:
		body = fmt.Sprintf("(%s %s)", opNames[t.Op], t.A.Ref())
	default:
		body = fmt.Sprintf("(%s %s %s)", opNames[t.Op], t.A.Ref(), t.B.Ref())
	}
	fmt.Fprintf(sb, "(define-fun t%d () %s %s)\n", t.ID, sortOf(t.W), body)
}

// ResetDefined forgets which terms were emitted (for a fresh solver process).
func (s *Store) ResetDefined() {
	for _, t := range s.all {
		t.defined = false
	}
	for _, tb := range s.Tables {
		tb.defined = false
	}
}

// String renders a term for humans (bounded depth).
func (t *Term) String() string {
	return t.str(6)
}

func (t *Term) str(d int) string {
	switch t.Op {
	case OpConst:
		if t.W == 0 {
			return constStr(0, t.Val)
		}
		return fmt.Sprintf("%d", sext(t.Val, t.W))
	case OpVar:
		return t.Name
	}
	if d == 0 {
		return fmt.Sprintf("t%d", t.ID)
	}
	switch t.Op {
	case OpExtract:
		return fmt.Sprintf("%s[%d+:%d]", t.A.str(d-1), t.Val, t.W)
	case OpZExt, OpSExt:
		return fmt.Sprintf("%s%d(%s)", opNames[t.Op], t.W, t.A.str(d-1))
	case OpSelect:
		return fmt.Sprintf("T%d[%s]", t.Val, t.A.str(d-1))
	case OpIte:
		return fmt.Sprintf("(ite %s %s %s)", t.A.str(d-1), t.B.str(d-1), t.C.str(d-1))
	case OpNot, OpNeg, OpBNot:
		return fmt.Sprintf("(%s %s)", opNames[t.Op], t.A.str(d-1))
	}
	return fmt.Sprintf("(%s %s %s)", opNames[t.Op], t.A.str(d-1), t.B.str(d-1))
}

// WriteStandalone renders a self-contained SMT-LIB2 script asserting all of asserts (no reliance on
// what a live solver has already been told): used for one-shot queries to a second solver.
func (s *Store) WriteStandalone(sb *strings.Builder, asserts []*Term, vars []*Term) {
	seen := map[*Term]bool{}
	tseen := map[int]bool{}
	var visit func(t *Term)
	visit = func(root *Term) {
		type fr struct {
			t *Term
			k int
		}
		stack := []fr{{root, 0}}
		for len(stack) > 0 {
			f := &stack[len(stack)-1]
			x := f.t
			if seen[x] {
				stack = stack[:len(stack)-1]
				continue
			}
			var child *Term
			for f.k < 3 {
				switch f.k {
				case 0:
					child = x.A
				case 1:
					child = x.B
				case 2:
					child = x.C
				}
				f.k++
				if child != nil && !seen[child] {
					break
				}
				child = nil
			}
			if child != nil {
				stack = append(stack, fr{child, 0})
				continue
			}
			if x.Op == OpSelect {
				tb := s.Tables[x.Val]
				if !tseen[tb.ID] {
					tseen[tb.ID] = true
					fmt.Fprintf(sb, "(declare-const T%d (Array (_ BitVec %d) (_ BitVec %d)))\n", tb.ID, tb.IW, tb.W)
					for i, v := range tb.Vals {
						fmt.Fprintf(sb, "(assert (= (select T%d %s) %s))\n", tb.ID, constStr(tb.IW, uint64(i)), constStr(tb.W, v))
					}
				}
				fmt.Fprintf(sb, "(define-fun t%d () %s (select T%d %s))\n", x.ID, sortOf(x.W), tb.ID, x.A.Ref())
			} else {
				// emit() writes table text to the preamble only for undefined tables; selects were handled above
				s.emit(sb, x)
			}
			seen[x] = true
			stack = stack[:len(stack)-1]
		}
	}
	for _, v := range vars {
		visit(v)
	}
	for _, a := range asserts {
		visit(a)
	}
	for _, a := range asserts {
		fmt.Fprintf(sb, "(assert %s)\n", a.Ref())
	}
}

// VarIDs returns the sorted IDs of the variables occurring in t (cached on the term).
func (s *Store) VarIDs(t *Term) []int {
	if t.varsDone {
		return t.vars
	}
	switch t.Op {
	case OpConst:
	case OpVar:
		t.vars = []int{t.ID}
	default:
		var acc []int
		for _, c := range [...]*Term{t.A, t.B, t.C} {
			if c == nil {
				continue
			}
			acc = mergeSorted(acc, s.VarIDs(c))
		}
		t.vars = acc
	}
	t.varsDone = true
	return t.vars
}

func mergeSorted(a, b []int) []int {
	if len(a) == 0 {
		return b
	}
	if len(b) == 0 {
		return a
	}
	out := make([]int, 0, len(a)+len(b))
	i, j := 0, 0
	for i < len(a) && j < len(b) {
		switch {
		case a[i] < b[j]:
			out = append(out, a[i])
			i++
		case a[i] > b[j]:
			out = append(out, b[j])
			j++
		default:
			out = append(out, a[i])
			i++
			j++
		}
	}
	out = append(out, a[i:]...)
	out = append(out, b[j:]...)
	return out
}
