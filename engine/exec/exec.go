// Package exec is a forking symbolic interpreter for go/ssa with opportunistic state merging.
package exec

import (
	"fmt"
	"go/constant"
	"go/token"
	"go/types"
	"sort"
	"strings"
	"time"

	"golang.org/x/tools/go/ssa"

	"symgo/smt"
	"symgo/term"
)

type Config struct {
	MaxPaths      int
	MaxInstrs     int64 // per path
	LoopLimit     int   // visits of one block per frame
	MaxDepth      int
	ConcretizeCap int
	MergeBudget   int64 // instructions an arm may run before it stops waiting at the join
	NoMerge       bool
	Witness       bool // witness mode: verifWitnessMode() returns true
	Trace         bool
	MaxViolations int
	// TermBound: a path that exhausts its instruction budget or a loop limit is reported as a violation of the bounded
	// termination assertion "terminates-within-the-step-bound" (with the path's witness) instead of making the run inconclusive.
	TermBound     bool
	Deadline      time.Time
	NoMergeFuncs  map[string]bool
	Params        map[string]int // values returned by verifParam(name)
	EagerBranches bool           // always decide branch feasibility before forking (no lazy arms)
	// OracleMergeBudget is the merge budget for branches inside harness oracle functions (name starts
	// with "verif"/"Verif" or listed in MergeFuncs): those are meant to be folded into one term.
	OracleMergeBudget int64
	MergeFuncs        map[string]bool
	Fallback          string // comma-separated solver kinds asked (one-shot) when the primary answers unknown
	FallbackTimeoutMs int
}

func (e *Exec) isOracleFunc(fn *ssa.Function) bool {
	if v, ok := e.oracleCache[fn]; ok {
		return v
	}
	name := fn.Name()
	if p := fn.Parent(); p != nil {
		for p.Parent() != nil {
			p = p.Parent()
		}
		name = p.Name()
	}
	v := strings.HasPrefix(name, "verif") || strings.HasPrefix(name, "Verif") || e.cfg.MergeFuncs[fn.String()] || e.cfg.MergeFuncs[name]
	e.oracleCache[fn] = v
	return v
}

type Stats struct {
	Paths, Forks, Merges, MergeFails int
	Instrs                           int64
	Concretizations                  int
	PrunedBranches                   int
	LazyBranches                     int
}

type AssertStat struct {
	Checked, Failed, Unknown, Trivial int
}

type Violation struct {
	Kind    string   `json:"kind"` // assert | panic | fatal
	ID      string   `json:"id"`
	Detail  string   `json:"detail"`
	Witness []uint64 `json:"witness"`
	Names   []string `json:"names"`
	Notes   []string `json:"notes,omitempty"`
}

type PathSample struct {
	Outcome string   `json:"outcome"`
	Detail  string   `json:"detail,omitempty"`
	Witness []uint64 `json:"witness"`
	PCSize  int      `json:"pc_size"`
	Instrs  int64    `json:"instrs"`
	Notes   []string `json:"notes,omitempty"`
}

type Exec struct {
	prog   *ssa.Program
	ts     *term.Store
	solver *smt.Solver
	cfg    Config

	fninfo map[*ssa.Function]*fnInfo
	base   map[int]*Object
	tables map[*ArrayV]*term.Table

	globals  map[*ssa.Global]int
	initDone map[*ssa.Package]bool
	initBad  map[*ssa.Package]string

	nextObj, nextState, nextEpoch int

	stats      Stats
	Outcomes   map[string]int
	Asserts    map[string]*AssertStat
	Violations []Violation
	Samples    []PathSample
	FuncInstrs map[string]int64
	CapsHit    map[string]int
	Stubs      map[string]int
	QueryKinds map[string]int
	finished   int
	feasCache  map[feasKey]smt.Result
	errorType  types.Type
	funcByName map[string]*ssa.Function

	fmtStrict     bool
	pendingPanics []pendingPanic
	oracleCache   map[*ssa.Function]bool
}

type feasKey struct {
	pc   *PCNode
	cond int
}

func New(prog *ssa.Program, ts *term.Store, solver *smt.Solver, cfg Config) *Exec {
	if cfg.MaxPaths == 0 {
		cfg.MaxPaths = 200000
	}
	if cfg.MaxInstrs == 0 {
		cfg.MaxInstrs = 5000000
	}
	if cfg.LoopLimit == 0 {
		cfg.LoopLimit = 4096
	}
	if cfg.MaxDepth == 0 {
		cfg.MaxDepth = 200
	}
	if cfg.ConcretizeCap == 0 {
		cfg.ConcretizeCap = 64
	}
	if cfg.MergeBudget == 0 {
		cfg.MergeBudget = 64
	}
	if cfg.OracleMergeBudget == 0 {
		cfg.OracleMergeBudget = 200000
	}
	if cfg.MaxViolations == 0 {
		cfg.MaxViolations = 20
	}
	e := &Exec{prog: prog, ts: ts, solver: solver, cfg: cfg,
		fninfo: map[*ssa.Function]*fnInfo{}, base: map[int]*Object{}, tables: map[*ArrayV]*term.Table{},
		globals: map[*ssa.Global]int{}, initDone: map[*ssa.Package]bool{}, initBad: map[*ssa.Package]string{},
		Outcomes: map[string]int{}, Asserts: map[string]*AssertStat{}, FuncInstrs: map[string]int64{},
		CapsHit: map[string]int{}, Stubs: map[string]int{}, QueryKinds: map[string]int{}, feasCache: map[feasKey]smt.Result{},
		funcByName: map[string]*ssa.Function{}, oracleCache: map[*ssa.Function]bool{}}
	e.errorType = types.Universe.Lookup("error").Type()
	return e
}

func (e *Exec) Stats() Stats { return e.stats }

// ---------------------------------------------------------------------------
// running an entry function

// Run explores fn (no parameters) exhaustively within the configured caps.
func (e *Exec) Run(fn *ssa.Function) {
	st := e.newState()
	e.pushFrame(st, fn, nil, nil, retNormal)
	rest := e.explore(st)
	for _, r := range rest {
		// states paused at a level that no longer exists cannot happen at top level
		e.finish(r, "internal", "paused state escaped to top level")
	}
}

func (e *Exec) newState() *State {
	e.nextState++
	e.nextEpoch++
	return &State{id: e.nextState, epoch: e.nextEpoch, heap: map[int]*Object{}, witness: term.NewModel(map[string]uint64{}), pausedLevel: -1}
}

func (e *Exec) pushFrame(st *State, fn *ssa.Function, args []Value, bind []Value, retMode int) {
	if len(st.frames) >= e.cfg.MaxDepth {
		panic(&execPanic{kind: "bound", msg: "call depth exceeded in " + fn.String()})
	}
	if len(fn.Blocks) == 0 {
		unsupported("call of body-less function %s", fn.String())
	}
	fi := e.info(fn)
	f := &Frame{fn: fn, info: fi, block: fn.Blocks[0], locals: make([]Value, fi.n), visits: make([]int32, len(fn.Blocks)), retMode: retMode}
	if len(args) != len(fn.Params) {
		panic(fmt.Sprintf("pushFrame %s: %d args for %d params", fn, len(args), len(fn.Params)))
	}
	copy(f.locals, args)
	copy(f.locals[len(fn.Params):], bind)
	st.frames = append(st.frames, f)
}

// ensureVerified makes sure the path condition of a lazily forked state is satisfiable and that the
// state carries a witness for it. Returns false (state is dead) otherwise.
func (e *Exec) ensureVerified(st *State) bool {
	if !st.unverified {
		return true
	}
	res, m := e.checkW(st, "verify-lazy", e.ts.True)
	switch res {
	case smt.Sat:
		st.witness = m
		st.unverified = false
		return true
	case smt.Unknown:
		e.CapsHit["unknown-branch: solver unknown while verifying a lazily forked arm"]++
		e.Outcomes["unknown-branch"]++
	}
	e.stats.PrunedBranches++
	return false
}

// needVerified is ensureVerified for use inside instruction handlers.
func (e *Exec) needVerified(st *State) {
	if st.unverified && !e.ensureVerified(st) {
		panic(&execPanic{kind: "dead"})
	}
}

func (e *Exec) finish(st *State, outcome, detail string) {
	if st.unverified && !e.ensureVerified(st) {
		return
	}
	st.outcome, st.detail = outcome, detail
	e.finished++
	e.stats.Paths++
	e.stats.Instrs += st.instrs
	e.Outcomes[outcome]++
	if len(e.Samples) < 12 || (outcome != "ok" && outcome != "infeasible" && len(e.Samples) < 40) {
		e.Samples = append(e.Samples, PathSample{Outcome: outcome, Detail: detail, Witness: e.witnessVals(st), PCSize: pcLen(st.pc), Instrs: st.instrs, Notes: st.notes})
	}
	if outcome == "bound-exceeded" && e.cfg.TermBound && (detail == "instruction budget" || strings.HasPrefix(detail, "loop limit")) {
		e.addViolation(st, "assert", "terminates-within-the-step-bound", detail)
		e.Outcomes["violation"]++
		return
	}
	switch outcome {
	case "panic", "fatal":
		e.addViolation(st, outcome, outcome, detail)
	case "bound-exceeded", "unsupported", "unknown-branch", "internal":
		e.CapsHit[outcome+": "+detail]++
	}
	if e.cfg.Trace {
		fmt.Printf("path %d: %s %s instrs=%d\n", st.id, outcome, detail, st.instrs)
	}
}

func pcLen(p *PCNode) int {
	if p == nil {
		return 0
	}
	return p.N
}

func (e *Exec) witnessVals(st *State) []uint64 {
	out := make([]uint64, len(st.nondet))
	for i, v := range st.nondet {
		out[i] = e.ts.Eval(v, st.witness)
	}
	return out
}

func (e *Exec) addViolation(st *State, kind, id, detail string) {
	if len(e.Violations) >= e.cfg.MaxViolations {
		return
	}
	names := make([]string, len(st.nondet))
	for i, v := range st.nondet {
		names[i] = v.Name
	}
	e.Violations = append(e.Violations, Violation{Kind: kind, ID: id, Detail: detail, Witness: e.witnessVals(st), Names: names, Notes: append([]string(nil), st.notes...)})
}

// ---------------------------------------------------------------------------
// solver helpers

// check decides PC ∧ extra. On Sat returns a model over the state's nondet variables.
func (e *Exec) checkW(st *State, why string, extra *term.Term) (smt.Result, *term.Model) {
	t0 := time.Now()
	r, m := e.check(st, extra)
	e.QueryKinds[why+"/"+r.String()]++
	e.QueryKinds[why+"/ms"] += int(time.Since(t0).Microseconds())
	return r, m
}

func (e *Exec) check(st *State, extra *term.Term) (smt.Result, *term.Model) {
	if extra.IsFalse() {
		return smt.Unsat, nil
	}
	as := st.pcTerms()
	for i, j := 0, len(as)-1; i < j; i, j = i+1, j-1 {
		as[i], as[j] = as[j], as[i] // oldest first, so that the solver's assertion stack is shared along the DFS
	}
	for _, a := range as {
		if a.IsFalse() {
			return smt.Unsat, nil
		}
	}
	var ex []*term.Term
	if !extra.IsTrue() {
		ex = []*term.Term{extra}
	}
	res, m := e.solver.Check(as, ex, st.nondet)
	if res == smt.Unknown && e.cfg.Fallback != "" {
		// second opinion from another solver, one-shot (the two z3 releases and cvc5 have different blind spots)
		all := append(append([]*term.Term(nil), as...), ex...)
		for _, fb := range strings.Split(e.cfg.Fallback, ",") {
			res, m = smt.OneShot(fb, e.ts, all, st.nondet, e.cfg.FallbackTimeoutMs)
			e.QueryKinds["fallback:"+fb+"/"+res.String()]++
			if res != smt.Unknown {
				break
			}
		}
	}
	if res == smt.Sat {
		if m == nil {
			m = map[string]uint64{}
		}
		mm := term.NewModel(m)
		// sanity: the engine's evaluator and the solver must agree on the model
		for _, a := range as {
			if e.ts.Eval(a, mm) == 0 {
				e.CapsHit["internal: solver model does not satisfy a path-condition conjunct under the engine evaluator: "+a.String()]++
				break
			}
		}
		if e.ts.Eval(extra, mm) == 0 {
			e.CapsHit["internal: solver model does not satisfy the query under the engine evaluator: "+extra.String()]++
		}
		return res, mm
	}
	return res, nil
}

// ---------------------------------------------------------------------------
// exploration with merging

type evKind int

const (
	evDone evKind = iota
	evPaused
	evBranch
	evConcretize
	evChoice
)

type event struct {
	kind evKind
	cond *term.Term
	t    *term.Term
	n    int
}

func (e *Exec) overBudget() bool {
	if e.stats.Paths >= e.cfg.MaxPaths {
		return true
	}
	if !e.cfg.Deadline.IsZero() && time.Now().After(e.cfg.Deadline) {
		return true
	}
	return false
}

// explore runs st to completion; terminal states are reported through finish, states paused at an
// enclosing pause level are returned.
func (e *Exec) explore(st *State) []*State {
	for {
		if e.overBudget() {
			e.finish(st, "bound-exceeded", "global path/time budget")
			return nil
		}
		ev := e.run(st)
		if len(e.pendingPanics) > 0 {
			e.flushPanics()
		}
		switch ev.kind {
		case evDone:
			return nil
		case evPaused:
			return []*State{st}
		case evChoice:
			// pure nondeterministic choice among n values: one child per value, no solver involved
			if !e.ensureVerified(st) {
				return nil
			}
			v := e.newNondet(st, 64, "choice")
			var out []*State
			for i := 0; i < ev.n; i++ {
				c := st
				if i < ev.n-1 {
					c = e.fork(st)
				}
				k := uint64(i)
				c.addPC(e.ts.Eq(v, e.ts.Const(64, k)))
				vals := make(map[string]uint64, len(c.witness.Vals)+1)
				for name, val := range c.witness.Vals {
					vals[name] = val
				}
				vals[v.Name] = k
				c.witness = term.NewModel(vals)
				c.choice = &k
				out = append(out, e.explore(c)...)
			}
			return out
		case evConcretize:
			if !e.ensureVerified(st) {
				return nil
			}
			if _, dup := st.conc[ev.t.ID]; dup {
				e.finish(st, "internal", "repeated concretisation request for "+ev.t.String())
				return nil
			}
			children := e.concretize(st, ev.t)
			var out []*State
			for _, c := range children {
				out = append(out, e.explore(c)...)
			}
			return e.regroup(st, out)
		case evBranch:
			if !e.ensureVerified(st) {
				return nil
			}
			c := ev.cond
			wv := e.ts.Eval(c, st.witness) != 0
			other := c
			if wv {
				other = e.ts.Not(c)
			}
			f := st.top()
			join := f.info.ipdom[f.block.Index]
			canMerge := !e.cfg.NoMerge && join != pdNone && !e.cfg.NoMergeFuncs[f.fn.String()] && (len(st.frames) > 1 || join >= 0)
			budget := e.cfg.MergeBudget
			if canMerge {
				if e.isOracleFunc(f.fn) {
					budget = e.cfg.OracleMergeBudget
				} else if f.info.isLoopExit(f.block.Index) {
					// a loop whose trip count is symbolic is unrolled by forking: merging would turn the
					// loop counter (and everything indexed by it) into ite terms
					canMerge = false
				}
			}
			var res smt.Result
			var model *term.Model
			lazy := false
			if _, known := st.pcKnown(c, e.ts.Not(c)); known {
				res = smt.Unsat // the witness side is the only one consistent with the path condition
			} else if canMerge && !e.cfg.EagerBranches && e.isOracleFunc(f.fn) {
				// the other arm is explored without a feasibility query; it is verified lazily, the first
				// time it needs a witness or terminates (simple diamonds never do)
				res, lazy = smt.Sat, true
				e.stats.LazyBranches++
			} else {
				res, model = e.checkW(st, "branch", other)
			}
			if res == smt.Unknown {
				// cannot decide the other side: record it as an inconclusive path and go on with the witness side
				e.CapsHit["unknown-branch: solver returned unknown for a branch condition"]++
				e.Outcomes["unknown-branch"]++
				res = smt.Unsat
			}
			if res == smt.Unsat {
				e.stats.PrunedBranches++
				if e.takeBranch(st, wv) {
					return []*State{st}
				}
				continue
			}
			// both sides feasible
			sW, sO := st, e.fork(st)
			if lazy {
				sO.unverified = true
			} else {
				sO.witness = model
			}
			condW, condO := c, e.ts.Not(c)
			if !wv {
				condW, condO = condO, condW
			}
			prefix := st.pc
			sW.addPC(condW)
			sO.addPC(condO)
			lvl := -1
			if canMerge {
				p := pause{depth: len(st.frames), limit: st.instrs + budget}
				if join >= 0 {
					p.block = f.fn.Blocks[join]
				}
				if n := len(st.pauses); n > 0 && st.pauses[n-1].depth == p.depth && st.pauses[n-1].block == p.block {
					// same join as the enclosing level: let the enclosing handler merge everything
					lvl = -1
				} else if len(st.pauses) < 48 {
					lvl = len(st.pauses)
					sW.pauses = append(sW.pauses, p)
					sO.pauses = append(append([]pause(nil), sO.pauses...), p)
				}
			}
			var rs []*State
			if e.takeBranch(sW, wv) {
				rs = append(rs, sW)
			} else {
				rs = append(rs, e.explore(sW)...)
			}
			if e.takeBranch(sO, !wv) {
				rs = append(rs, sO)
			} else {
				rs = append(rs, e.explore(sO)...)
			}
			if lvl < 0 {
				return rs
			}
			var here, up []*State
			for _, r := range rs {
				if r.pausedLevel == lvl {
					here = append(here, r)
				} else {
					up = append(up, r)
				}
			}
			merged := e.mergeAll(prefix, here)
			for _, m := range merged {
				pp := m.pauses[lvl]
				m.pauses = m.pauses[:lvl]
				m.pausedLevel = -1
				hit := -1
				for k := lvl - 1; k >= 0; k-- {
					if m.pauses[k].depth == pp.depth && m.pauses[k].block == pp.block {
						hit = k
						break
					}
				}
				if hit >= 0 {
					m.pauses = m.pauses[:hit+1]
					m.pausedLevel = hit
					up = append(up, m)
					continue
				}
				up = append(up, e.explore(m)...)
			}
			return up
		}
	}
}

// regroup is a hook for merging the children of a concretisation; currently they continue separately.
func (e *Exec) regroup(parent *State, out []*State) []*State { return out }

func (e *Exec) takeBranch(st *State, which bool) (paused bool) {
	f := st.top()
	ifi := f.block.Instrs[f.pc].(*ssa.If)
	_ = ifi
	succ := f.block.Succs[0]
	if !which {
		succ = f.block.Succs[1]
	}
	st.instrs++
	return e.jump(st, f, succ)
}

// concretize forks st over the feasible values of t.
func (e *Exec) concretize(st *State, t *term.Term) []*State {
	e.stats.Concretizations++
	var out []*State
	cur := st
	for n := 0; ; n++ {
		if n >= e.cfg.ConcretizeCap {
			e.finish(cur, "bound-exceeded", "concretisation fan-out cap for "+t.String())
			return out
		}
		var v uint64
		if n == 0 {
			v = e.ts.Eval(t, cur.witness)
		} else {
			res, m := e.checkW(cur, "concretize", e.ts.True)
			if res == smt.Unsat {
				e.finishQuiet(cur)
				return out
			}
			if res == smt.Unknown {
				e.finish(cur, "unknown-branch", "solver unknown during concretisation")
				return out
			}
			cur.witness = m
			v = e.ts.Eval(t, m)
		}
		c := e.fork(cur)
		k := e.ts.Const(t.W, v)
		c.addPC(e.ts.Eq(t, k))
		if c.conc == nil {
			c.conc = map[int]uint64{}
		}
		c.conc[t.ID] = v
		out = append(out, c)
		cur.addPC(e.ts.Not(e.ts.Eq(t, k)))
	}
}

// finishQuiet drops an infeasible remainder state without counting it as a path.
func (e *Exec) finishQuiet(st *State) {}

// concrete returns the concrete value of t in st, requesting a concretisation fork if needed.
func (e *Exec) concrete(st *State, t *term.Term) uint64 {
	if t.IsConst() {
		return t.Val
	}
	if v, ok := st.conc[t.ID]; ok {
		return v
	}
	if v, ok := e.pinnedConst(st, t); ok {
		return v
	}
	panic(&concretizeReq{t})
}

func (e *Exec) concreteInt(st *State, v Value) int {
	t := v.(*term.Term)
	return int(int64(e.signed(st, t)))
}

func (e *Exec) signed(st *State, t *term.Term) int64 {
	u := e.concrete(st, t)
	if t.W < 64 && t.W > 0 {
		sh := 64 - uint(t.W)
		return int64(u<<sh) >> sh
	}
	return int64(u)
}

// ---------------------------------------------------------------------------
// the interpreter loop

// run executes st until it terminates, pauses, or needs a fork.
func (e *Exec) run(st *State) event {
	for {
		ev, again := e.runInner(st)
		if !again {
			return ev
		}
	}
}

func (e *Exec) runInner(st *State) (ev event, again bool) {
	defer func() {
		if r := recover(); r != nil {
			switch x := r.(type) {
			case *goPanicSignal:
				again = true
			case *concretizeReq:
				ev = event{kind: evConcretize, t: x.t}
			case *execPanic:
				switch x.kind {
				case "unsupported":
					e.finish(st, "unsupported", x.msg)
				case "bound":
					e.finish(st, "bound-exceeded", x.msg)
				case "infeasible":
					e.finish(st, "infeasible", x.msg)
				case "fatal":
					e.finish(st, "fatal", x.msg)
				case "stop":
					e.finish(st, "ok", x.msg)
				case "dead":
				default:
					e.finish(st, "internal", x.msg)
				}
				ev = event{kind: evDone}
			case *branchReq:
				ev = event{kind: evBranch, cond: x.cond}
			case *choiceReq:
				ev = event{kind: evChoice, n: x.n}
			default:
				panic(r)
			}
		}
	}()
	for {
		if len(st.frames) == 0 {
			e.finish(st, "ok", "")
			return event{kind: evDone}, false
		}
		if st.panicking {
			if e.unwind(st) {
				return event{kind: evDone}, false
			}
			continue
		}
		f := st.top()
		if f.pc >= len(f.block.Instrs) {
			panic("fell off block")
		}
		instr := f.block.Instrs[f.pc]
		st.instrs++
		if st.instrs > e.cfg.MaxInstrs {
			e.finish(st, "bound-exceeded", "instruction budget")
			return event{kind: evDone}, false
		}
		for n := len(st.pauses); n > 0 && st.instrs > st.pauses[n-1].limit; n = len(st.pauses) {
			st.pauses = st.pauses[:n-1] // escape: stop waiting at this join
		}
		if e.cfg.Trace {
			fmt.Printf("  [%d] %s: %s\n", st.id, f.fn.Name(), instr)
		}
		paused := e.step(st, f, instr)
		if paused {
			return event{kind: evPaused}, false
		}
	}
}

type branchReq struct{ cond *term.Term }
type choiceReq struct{ n int }

// checkPauseBlock is called right after entering a block (phis done).
func (e *Exec) checkPause(st *State, block *ssa.BasicBlock) bool {
	for k := len(st.pauses) - 1; k >= 0; k-- {
		p := st.pauses[k]
		if block != nil {
			if p.block == block && p.depth == len(st.frames) {
				st.pauses = st.pauses[:k+1]
				st.pausedLevel = k
				return true
			}
		} else if p.block == nil && p.depth-1 == len(st.frames) {
			st.pauses = st.pauses[:k+1]
			st.pausedLevel = k
			return true
		}
		if p.depth > len(st.frames)+1 || (p.depth == len(st.frames)+1 && p.block != nil) {
			// the frame owning this pause is gone: drop it
			st.pauses = st.pauses[:k]
		}
	}
	return false
}

// jump moves frame f to block succ, evaluating phis.
func (e *Exec) jump(st *State, f *Frame, succ *ssa.BasicBlock) bool {
	pred := f.block
	f.visits[succ.Index]++
	if int(f.visits[succ.Index]) > e.cfg.LoopLimit {
		panic(&execPanic{kind: "bound", msg: fmt.Sprintf("loop limit in %s block %d", f.fn, succ.Index)})
	}
	nphi := f.info.firstNon[succ.Index]
	if nphi > 0 {
		pi := -1
		for i, p := range succ.Preds {
			if p == pred {
				pi = i
				break
			}
		}
		var tmp [8]Value
		vals := tmp[:0]
		for k := 0; k < nphi; k++ {
			phi := succ.Instrs[k].(*ssa.Phi)
			vals = append(vals, e.get(st, f, phi.Edges[pi]))
		}
		for k := 0; k < nphi; k++ {
			f.locals[f.info.index[succ.Instrs[k].(ssa.Value)]] = vals[k]
		}
	}
	f.block = succ
	f.pc = nphi
	if len(st.pauses) > 0 {
		return e.checkPause(st, succ)
	}
	return false
}

func (e *Exec) set(f *Frame, v ssa.Value, val Value) {
	f.locals[f.info.index[v]] = val
}

// get evaluates an operand.
func (e *Exec) get(st *State, f *Frame, v ssa.Value) Value {
	switch x := v.(type) {
	case *ssa.Const:
		return e.constValue(x)
	case *ssa.Global:
		return &PtrV{Obj: e.globalObj(st, x)}
	case *ssa.Function:
		return &FuncV{Fn: x}
	case *ssa.Builtin:
		return &FuncV{}
	}
	ix, ok := f.info.index[v]
	if !ok {
		panic(fmt.Sprintf("get: unknown value %s (%T) in %s", v.Name(), v, f.fn))
	}
	val := f.locals[ix]
	if val == nil {
		panic(fmt.Sprintf("get: value %s = %s not yet defined in %s", v.Name(), v, f.fn))
	}
	return val
}

func (e *Exec) constValue(c *ssa.Const) Value {
	t := c.Type()
	if c.Value == nil {
		return e.zero(t)
	}
	if w, signed, ok := intWidth(t); ok {
		if w == 0 {
			return e.ts.Bool(constant.BoolVal(c.Value))
		}
		if signed {
			iv, exact := constant.Int64Val(constant.ToInt(c.Value))
			if !exact {
				uv, _ := constant.Uint64Val(constant.ToInt(c.Value))
				return e.ts.Const(w, uv)
			}
			return e.ts.Const(w, uint64(iv))
		}
		uv, exact := constant.Uint64Val(constant.ToInt(c.Value))
		if !exact {
			iv, _ := constant.Int64Val(constant.ToInt(c.Value))
			uv = uint64(iv)
		}
		return e.ts.Const(w, uv)
	}
	if isString(t) {
		return &StringV{S: constant.StringVal(c.Value)}
	}
	if isFloat(t) {
		fv, _ := constant.Float64Val(constant.ToFloat(c.Value))
		return &FloatV{F: fv}
	}
	if _, ok := t.Underlying().(*types.Interface); ok {
		return nilIface
	}
	// type parameter constants etc.
	return e.zero(t)
}

// ---------------------------------------------------------------------------
// globals and package initialisation

func (e *Exec) globalObj(st *State, g *ssa.Global) int {
	if id, ok := e.globals[g]; ok {
		return id
	}
	pkg := g.Pkg
	e.ensureInit(pkg)
	if id, ok := e.globals[g]; ok {
		return id
	}
	return e.allocGlobal(g)
}

func (e *Exec) allocGlobal(g *ssa.Global) int {
	e.nextObj++
	id := e.nextObj
	elem := g.Type().(*types.Pointer).Elem()
	e.base[id] = &Object{V: e.zero(elem)}
	e.globals[g] = id
	return id
}

// ensureInit runs the package initialiser (once) in a private state writing to the base heap.
func (e *Exec) ensureInit(pkg *ssa.Package) {
	if pkg == nil || e.initDone[pkg] {
		return
	}
	e.initDone[pkg] = true
	for _, m := range pkg.Members {
		if g, ok := m.(*ssa.Global); ok {
			if _, done := e.globals[g]; !done {
				e.allocGlobal(g)
			}
		}
	}
	initFn := pkg.Func("init")
	if initFn == nil || len(initFn.Blocks) == 0 {
		return
	}
	ist := e.newState()
	ist.isInit = true
	saveCfg := e.cfg
	e.cfg.MaxInstrs = 200000000
	e.cfg.LoopLimit = 1 << 30
	e.cfg.Trace = false
	func() {
		defer func() {
			if r := recover(); r != nil {
				e.initBad[pkg] = fmt.Sprint(r)
			}
		}()
		e.pushFrame(ist, initFn, nil, nil, retNormal)
		ev := e.runInit(ist)
		if ev != "" {
			e.initBad[pkg] = ev
		}
	}()
	e.cfg = saveCfg
}

// runInit interprets an init function concretely; anything needing a fork is an error.
func (e *Exec) runInit(st *State) (problem string) {
	defer func() {
		if r := recover(); r != nil {
			switch x := r.(type) {
			case *execPanic:
				problem = x.kind + ": " + x.msg
			case *concretizeReq:
				problem = "symbolic value in init"
			case *branchReq:
				problem = "symbolic branch in init"
			default:
				problem = fmt.Sprint(r)
			}
		}
	}()
	for len(st.frames) > 0 {
		if st.panicking {
			return "panic in init: " + st.panicMsg
		}
		f := st.top()
		instr := f.block.Instrs[f.pc]
		st.instrs++
		e.step(st, f, instr)
	}
	return ""
}

// ---------------------------------------------------------------------------
// panics

func (e *Exec) goPanic(st *State, msg string) {
	st.panicking = true
	st.panicMsg = msg
	st.panicVal = &IfaceV{T: types.Typ[types.String], V: &StringV{S: msg}}
	panic(&goPanicSignal{})
}

type goPanicSignal struct{}

// unwind performs one step of panic propagation. Returns true when the path has terminated.
func (e *Exec) unwind(st *State) bool {
	for len(st.frames) > 0 {
		f := st.top()
		if len(f.defers) > 0 {
			d := f.defers[len(f.defers)-1]
			f.defers = f.defers[:len(f.defers)-1]
			// run the deferred call; panicking stays set, recover() clears it
			st.panicking = false
			f.recovered = false
			e.callDeferred(st, f, d, true)
			return false
		}
		st.frames = st.frames[:len(st.frames)-1]
	}
	e.finish(st, "panic", st.panicMsg)
	return true
}

// ---------------------------------------------------------------------------

func (e *Exec) funcName(fn *ssa.Function) string { return fn.String() }

func (e *Exec) Report() map[string]interface{} {
	fns := make([]map[string]interface{}, 0, len(e.FuncInstrs))
	names := make([]string, 0, len(e.FuncInstrs))
	for n := range e.FuncInstrs {
		names = append(names, n)
	}
	sort.Strings(names)
	for _, n := range names {
		fns = append(fns, map[string]interface{}{"name": n, "instrs": e.FuncInstrs[n]})
	}
	as := map[string]interface{}{}
	for id, a := range e.Asserts {
		as[id] = map[string]int{"checked": a.Checked, "failed": a.Failed, "unknown": a.Unknown, "trivial": a.Trivial}
	}
	bad := map[string]string{}
	for p, why := range e.initBad {
		bad[p.Pkg.Path()] = why
	}
	ss := e.solver.Stats
	return map[string]interface{}{
		"outcomes":   e.Outcomes,
		"asserts":    as,
		"violations": e.Violations,
		"samples":    e.Samples,
		"functions":  fns,
		"caps_hit":   e.CapsHit,
		"stubs":      e.Stubs,
		"query_kinds": e.QueryKinds,
		"init_bad":   bad,
		"stats": map[string]interface{}{"paths": e.stats.Paths, "forks": e.stats.Forks, "merges": e.stats.Merges, "merge_fails": e.stats.MergeFails,
			"instrs": e.stats.Instrs, "concretizations": e.stats.Concretizations, "pruned": e.stats.PrunedBranches, "lazy_branches": e.stats.LazyBranches, "terms": e.ts.NumTerms()},
		"queries": map[string]interface{}{"n": ss.Queries, "unsat": ss.Unsat, "sat": ss.Sat, "unknown": ss.Unknown, "errors": ss.Errors,
			"ms": ss.Time.Milliseconds(), "max_ms": ss.MaxQuery.Milliseconds(), "last_error": e.solver.LastErr},
	}
}

var _ = token.NoPos
var _ = strings.Join

// pinnedConst evaluates t when every variable in it is pinned by the path condition.
func (e *Exec) pinnedConst(st *State, t *term.Term) (uint64, bool) {
	if t.IsConst() {
		return t.Val, true
	}
	if len(st.pinned) == 0 {
		return 0, false
	}
	for _, v := range e.ts.VarIDs(t) {
		if _, ok := st.pinned[v]; !ok {
			return 0, false
		}
	}
	if st.pinModel == nil {
		vals := make(map[string]uint64, len(st.pinName))
		for k, v := range st.pinName {
			vals[k] = v
		}
		st.pinModel = term.NewModel(vals)
	}
	return e.ts.Eval(t, st.pinModel), true
}
