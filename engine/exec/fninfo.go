package exec

import (
	"golang.org/x/tools/go/ssa"
)

// fnInfo caches per-function analysis: value numbering, post-dominators, liveness.
type fnInfo struct {
	fn       *ssa.Function
	index    map[ssa.Value]int
	n        int
	firstNon []int // per block: index of first non-phi instruction
	// ipdom[b] = index of immediate post-dominator block, -1 = virtual exit, -2 = none
	ipdom []int
	// liveAfterPhi[b]: bitset of value indices live right after the phis of block b
	live     [][]uint64
	loopExit map[int]bool
}

const (
	pdExit = -1
	pdNone = -2
)

func (e *Exec) info(fn *ssa.Function) *fnInfo {
	if fi, ok := e.fninfo[fn]; ok {
		return fi
	}
	fi := &fnInfo{fn: fn, index: map[ssa.Value]int{}}
	add := func(v ssa.Value) {
		fi.index[v] = fi.n
		fi.n++
	}
	for _, p := range fn.Params {
		add(p)
	}
	for _, p := range fn.FreeVars {
		add(p)
	}
	fi.firstNon = make([]int, len(fn.Blocks))
	for bi, b := range fn.Blocks {
		k := 0
		for _, in := range b.Instrs {
			if _, ok := in.(*ssa.Phi); ok {
				k++
			}
			if v, ok := in.(ssa.Value); ok {
				add(v)
			}
		}
		fi.firstNon[bi] = k
	}
	fi.computePostDom()
	e.fninfo[fn] = fi
	return fi
}

// computePostDom: iterative post-dominator computation (Cooper/Harvey/Kennedy on the reverse CFG).
// Only blocks ending in Return feed the virtual exit; Panic-terminated blocks are ignored so that
// "if bad { panic }" does not drag the join to the function exit.
func (fi *fnInfo) computePostDom() {
	blocks := fi.fn.Blocks
	n := len(blocks)
	fi.ipdom = make([]int, n)
	for i := range fi.ipdom {
		fi.ipdom[i] = pdNone
	}
	// reverse post-order on reverse CFG starting from exit
	exit := n // virtual node index
	succs := func(b int) []int { // successors in reverse graph = predecessors in CFG
		if b == exit {
			var out []int
			for _, bb := range blocks {
				if len(bb.Instrs) > 0 {
					if _, ok := bb.Instrs[len(bb.Instrs)-1].(*ssa.Return); ok {
						out = append(out, bb.Index)
					}
				}
			}
			return out
		}
		var out []int
		for _, p := range blocks[b].Preds {
			out = append(out, p.Index)
		}
		return out
	}
	order := []int{}
	seen := make([]bool, n+1)
	var dfs func(b int)
	dfs = func(b int) {
		seen[b] = true
		for _, s := range succs(b) {
			if !seen[s] {
				dfs(s)
			}
		}
		order = append(order, b)
	}
	dfs(exit)
	// order is post-order; rpo = reversed
	rpoNum := make([]int, n+1)
	for i := range rpoNum {
		rpoNum[i] = -1
	}
	rpo := make([]int, len(order))
	for i := range order {
		rpo[i] = order[len(order)-1-i]
		rpoNum[rpo[i]] = i
	}
	idom := make([]int, n+1)
	for i := range idom {
		idom[i] = -1
	}
	idom[exit] = exit
	intersect := func(a, b int) int {
		for a != b {
			for rpoNum[a] > rpoNum[b] {
				a = idom[a]
			}
			for rpoNum[b] > rpoNum[a] {
				b = idom[b]
			}
		}
		return a
	}
	changed := true
	for changed {
		changed = false
		for _, b := range rpo {
			if b == exit {
				continue
			}
			// predecessors in reverse graph = successors in CFG (plus exit for return blocks)
			newIdom := -1
			consider := func(p int) {
				if idom[p] == -1 {
					return
				}
				if newIdom == -1 {
					newIdom = p
				} else {
					newIdom = intersect(p, newIdom)
				}
			}
			bb := blocks[b]
			if len(bb.Instrs) > 0 {
				if _, ok := bb.Instrs[len(bb.Instrs)-1].(*ssa.Return); ok {
					consider(exit)
				}
			}
			for _, s := range bb.Succs {
				if rpoNum[s.Index] >= 0 {
					consider(s.Index)
				}
			}
			if newIdom != -1 && idom[b] != newIdom {
				idom[b] = newIdom
				changed = true
			}
		}
	}
	for b := 0; b < n; b++ {
		switch {
		case idom[b] == -1:
			fi.ipdom[b] = pdNone
		case idom[b] == exit:
			fi.ipdom[b] = pdExit
		default:
			fi.ipdom[b] = idom[b]
		}
	}
}

// liveness (computed lazily): values live right after the phis of each block.
func (fi *fnInfo) liveness() [][]uint64 {
	if fi.live != nil {
		return fi.live
	}
	blocks := fi.fn.Blocks
	nb := len(blocks)
	words := (fi.n + 63) / 64
	newSet := func() []uint64 { return make([]uint64, words) }
	set := func(s []uint64, i int) { s[i/64] |= 1 << (uint(i) % 64) }
	has := func(s []uint64, i int) bool { return s[i/64]&(1<<(uint(i)%64)) != 0 }
	use := make([][]uint64, nb)    // upward exposed uses in non-phi instrs
	def := make([][]uint64, nb)    // defs by non-phi instrs
	phiDef := make([][]uint64, nb) // defs by phis
	for bi, b := range blocks {
		use[bi], def[bi], phiDef[bi] = newSet(), newSet(), newSet()
		for k, in := range b.Instrs {
			if k < fi.firstNon[bi] {
				set(phiDef[bi], fi.index[in.(ssa.Value)])
				continue
			}
			var ops [8]*ssa.Value
			for _, op := range in.Operands(ops[:0]) {
				if *op == nil {
					continue
				}
				if ix, ok := fi.index[*op]; ok && !has(def[bi], ix) {
					set(use[bi], ix)
				}
			}
			if v, ok := in.(ssa.Value); ok {
				set(def[bi], fi.index[v])
			}
		}
	}
	live := make([][]uint64, nb) // live after phis
	for i := range live {
		live[i] = newSet()
	}
	changed := true
	for changed {
		changed = false
		for bi := nb - 1; bi >= 0; bi-- {
			b := blocks[bi]
			out := newSet()
			for _, s := range b.Succs {
				si := s.Index
				for w := 0; w < words; w++ {
					out[w] |= live[si][w] &^ phiDef[si][w]
				}
				// phi operands coming from b
				predIdx := -1
				for pi, p := range s.Preds {
					if p == b {
						predIdx = pi
						break
					}
				}
				for k := 0; k < fi.firstNon[si]; k++ {
					phi := s.Instrs[k].(*ssa.Phi)
					if predIdx >= 0 {
						if ix, ok := fi.index[phi.Edges[predIdx]]; ok {
							set(out, ix)
						}
					}
				}
			}
			for w := 0; w < words; w++ {
				nv := use[bi][w] | (out[w] &^ def[bi][w])
				if nv != live[bi][w] {
					live[bi][w] = nv
					changed = true
				}
			}
		}
	}
	fi.live = live
	return live
}

func (fi *fnInfo) liveAt(block int, ix int) bool {
	l := fi.liveness()
	return l[block][ix/64]&(1<<(uint(ix)%64)) != 0
}

// isLoopExit reports whether the If ending block b is a loop exit test: exactly one of its two
// successors can reach b again.
func (fi *fnInfo) isLoopExit(b int) bool {
	if fi.loopExit == nil {
		fi.loopExit = map[int]bool{}
	}
	if v, ok := fi.loopExit[b]; ok {
		return v
	}
	blk := fi.fn.Blocks[b]
	v := false
	if len(blk.Succs) == 2 {
		v = fi.reaches(blk.Succs[0].Index, b) != fi.reaches(blk.Succs[1].Index, b)
	}
	fi.loopExit[b] = v
	return v
}

func (fi *fnInfo) reaches(from, to int) bool {
	seen := make([]bool, len(fi.fn.Blocks))
	stack := []int{from}
	for len(stack) > 0 {
		x := stack[len(stack)-1]
		stack = stack[:len(stack)-1]
		if x == to {
			return true
		}
		if seen[x] {
			continue
		}
		seen[x] = true
		for _, s := range fi.fn.Blocks[x].Succs {
			stack = append(stack, s.Index)
		}
	}
	return false
}
