package exec

import (
	"symgo/term"
)

// suffixCond returns the conjunction of the path-condition entries of st added after prefix.
func (e *Exec) suffixCond(st *State, prefix *PCNode) (*term.Term, bool) {
	acc := e.ts.True
	n := st.pc
	for n != prefix {
		if n == nil {
			return nil, false // prefix is not an ancestor
		}
		acc = e.ts.And(n.T, acc)
		n = n.Prev
	}
	return acc, true
}

// mergeAll tries to fold the states paused at one join into as few states as possible.
func (e *Exec) mergeAll(prefix *PCNode, states []*State) []*State {
	if len(states) <= 1 {
		return states
	}
	type group struct {
		st   *State
		cond *term.Term
	}
	var groups []*group
	for _, s := range states {
		cs, ok := e.suffixCond(s, prefix)
		if !ok {
			groups = append(groups, &group{s, nil})
			continue
		}
		done := false
		tries := 0
		for _, g := range groups {
			if g.cond == nil {
				continue
			}
			tries++
			if tries > 8 {
				break
			}
			if e.mergeInto(g.st, s, cs) {
				g.cond = e.ts.Or(g.cond, cs)
				g.st.pc = prefix
				g.st.addPC(g.cond)
				e.stats.Merges++
				done = true
				break
			}
			e.stats.MergeFails++
		}
		if !done {
			groups = append(groups, &group{s, cs})
		}
	}
	out := make([]*State, len(groups))
	for i, g := range groups {
		out[i] = g.st
	}
	return out
}

// mergeInto merges s into g (values of s selected when cs holds). Returns false, leaving g
// untouched, when the two states are not structurally compatible.
func (e *Exec) mergeInto(g, s *State, cs *term.Term) bool {
	if len(g.frames) != len(s.frames) || len(g.nondet) != len(s.nondet) || g.panicking != s.panicking {
		return false
	}
	for i := range g.nondet {
		if g.nondet[i] != s.nondet[i] {
			return false
		}
	}
	if len(g.notes) != len(s.notes) {
		return false
	}
	for i := range g.notes {
		if g.notes[i] != s.notes[i] {
			return false
		}
	}
	// frames
	type localFix struct {
		fi, li int
		v      Value
	}
	var lfix []localFix
	for i := range g.frames {
		a, b := g.frames[i], s.frames[i]
		if a.fn != b.fn || a.block != b.block || a.pc != b.pc || len(a.defers) != len(b.defers) || a.retMode != b.retMode || a.cont != b.cont || a.recovered != b.recovered {
			return false
		}
		for k := range a.defers {
			if a.defers[k] != b.defers[k] {
				return false
			}
		}
		isTop := i == len(g.frames)-1
		for li := range a.locals {
			va, vb := a.locals[li], b.locals[li]
			if va == vb {
				continue
			}
			if va == nil || vb == nil {
				// defined on one side only: must be dead
				if isTop && a.pc == a.info.firstNon[a.block.Index] && !a.info.liveAt(a.block.Index, li) {
					continue
				}
				if !isTop {
					return false
				}
				// conservatively keep the defined one (dead values are never read)
				if va == nil {
					lfix = append(lfix, localFix{i, li, vb})
				}
				continue
			}
			m, ok := e.mergeValue(cs, vb, va)
			if !ok {
				if isTop && a.pc == a.info.firstNon[a.block.Index] && !a.info.liveAt(a.block.Index, li) {
					continue
				}
				return false
			}
			lfix = append(lfix, localFix{i, li, m})
		}
	}
	// heap
	type heapFix struct {
		id int
		v  Value
	}
	var hfix []heapFix
	seen := map[int]bool{}
	visit := func(id int) bool {
		if seen[id] {
			return true
		}
		seen[id] = true
		oa, inA := g.heap[id]
		ob, inB := s.heap[id]
		if !inA {
			oa = e.base[id]
		}
		if !inB {
			ob = e.base[id]
		}
		if oa == ob {
			return true
		}
		if oa == nil {
			// allocated only in s: keep it (reachable only through s-specific values)
			hfix = append(hfix, heapFix{id, ob.V})
			return true
		}
		if ob == nil {
			return true
		}
		if oa.V == ob.V {
			return true
		}
		m, ok := e.mergeValue(cs, ob.V, oa.V)
		if !ok {
			return false
		}
		hfix = append(hfix, heapFix{id, m})
		return true
	}
	for id := range g.heap {
		if !visit(id) {
			return false
		}
	}
	for id := range s.heap {
		if !visit(id) {
			return false
		}
	}
	// commit
	for _, lf := range lfix {
		g.frames[lf.fi].locals[lf.li] = lf.v
	}
	for _, hf := range hfix {
		v := hf.v
		if a, ok := v.(*ArrayV); ok && a.owner != 0 {
			v = &ArrayV{E: a.E}
		}
		g.heap[hf.id] = &Object{V: v, epoch: g.epoch}
	}
	if g.pinned != nil {
		for k, v := range g.pinned {
			if sv, ok := s.pinned[k]; !ok || sv != v {
				delete(g.pinned, k)
			}
		}
		for k, v := range g.pinName {
			if sv, ok := s.pinName[k]; !ok || sv != v {
				delete(g.pinName, k)
			}
		}
		g.pinModel = nil
	}
	if g.conc != nil {
		for k, v := range g.conc {
			if sv, ok := s.conc[k]; !ok || sv != v {
				delete(g.conc, k)
			}
		}
	}
	for i := range g.frames {
		a, b := g.frames[i], s.frames[i]
		for k := range a.visits {
			if b.visits[k] > a.visits[k] {
				a.visits[k] = b.visits[k]
			}
		}
	}
	if s.instrs > g.instrs {
		g.instrs = s.instrs
	}
	if g.unverified && !s.unverified {
		g.witness = s.witness
		g.unverified = false
	}
	return true
}
