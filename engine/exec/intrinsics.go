package exec

import (
	"fmt"
	"go/types"

	"golang.org/x/tools/go/ssa"

	"symgo/term"
)

type intrinsic func(e *Exec, st *State, f *Frame, fn *ssa.Function, args []Value) Value

var intrinsics map[string]intrinsic

func init() {
	intrinsics = map[string]intrinsic{
		"fmt.Sprintf":  fmtSprintf,
		"fmt.Sprint":   fmtSprint,
		"fmt.Sprintln": fmtSprint,
		"fmt.Errorf":   fmtErrorf,
		"fmt.Printf":   noop,
		"fmt.Println":  noop,
		"fmt.Print":    noop,
		"fmt.Fprintf":  fmtFprintf,
		"fmt.Fprintln": fmtFprintln,
		"fmt.Fprint":   fmtFprint,
		"log.Printf":   noop,
		"log.Println":  noop,
		"log.Print":    noop,
		"log.Fatal":    fatal,
		"log.Fatalf":   fatal,
		"log.Fatalln":  fatal,
		"log.Panicf":   fatal,
		"os.Exit":      fatal,
		"sort.Slice":   sortSlice,
		"sort.SliceStable":                      sortSlice,
		"internal/bytealg.IndexByteString":      bytealgIndexByteString,
		"internal/bytealg.IndexByte":            bytealgIndexByte,
		"internal/bytealg.CountString":          bytealgCountString,
		"internal/bytealg.IndexString":          bytealgIndexString,
		"internal/bytealg.Index":                bytealgIndexString,
		"internal/bytealg.Count":                bytealgCount,
		"internal/bytealg.Equal":                bytealgEqual,
		"internal/bytealg.Compare":              bytealgCompare,
		"internal/stringslite.IndexByte":        bytealgIndexByteString,
		"internal/bytealg.MakeNoZero":           bytealgMakeNoZero,
		"(*strings.Builder).copyCheck":          noop,
		"internal/race.ReadRange":               noop,
		"internal/race.WriteRange":              noop,
		"internal/race.Acquire":                 noop,
		"internal/race.Release":                 noop,
		"internal/race.ReleaseMerge":            noop,
		"internal/race.Enable":                  noop,
		"internal/race.Disable":                 noop,
		"(*sync.Mutex).Lock":                    noop,
		"(*sync.Mutex).Unlock":                  noop,
		"(*sync.RWMutex).Lock":                  noop,
		"(*sync.RWMutex).Unlock":                noop,
		"(*sync.RWMutex).RLock":                 noop,
		"(*sync.RWMutex).RUnlock":               noop,
		"runtime.KeepAlive":                     noop,
		// the clock: every reading is instant zero (durations measured by the code under test are not observable in any property)
		"time.runtimeNow":                       noop,
		"time.runtimeNano":                      noop,
		"internal/abi.NoEscape":                 identity,
		"internal/abi.Escape[*strings.Builder]": identity,
	}
}

func noop(e *Exec, st *State, f *Frame, fn *ssa.Function, args []Value) Value {
	return e.zeroResult(fn)
}

func noop2(e *Exec, st *State, f *Frame, fn *ssa.Function, args []Value) Value {
	return e.zeroResult(fn)
}

func identity(e *Exec, st *State, f *Frame, fn *ssa.Function, args []Value) Value { return args[0] }

func (e *Exec) zeroResult(fn *ssa.Function) Value {
	rs := fn.Signature.Results()
	switch rs.Len() {
	case 0:
		return &TupleV{}
	case 1:
		return e.zero(rs.At(0).Type())
	}
	return e.zero(rs)
}

func fatal(e *Exec, st *State, f *Frame, fn *ssa.Function, args []Value) Value {
	msg := fn.String()
	if len(args) > 0 {
		if s, ok := args[0].(*StringV); ok && s.IsConcrete() {
			msg += ": " + s.Concrete()
		} else if sl, ok := args[0].(*SliceV); ok {
			msg += ": " + e.formatArgs(st, "", sl, true)
		}
	}
	panic(&execPanic{kind: "fatal", msg: msg})
}

// goValue converts a value into something fmt can print.
func (e *Exec) goValue(st *State, v Value) interface{} {
	switch x := v.(type) {
	case *IfaceV:
		if x.T == nil {
			return nil
		}
		if t, ok := x.V.(*term.Term); ok {
			if !t.IsConst() {
				if e.fmtStrict {
					panic(&concretizeReq{t})
				}
				e.Stubs["fmt: symbolic argument rendered as ?"]++
				return "?"
			}
			w, signed, _ := intWidth(x.T)
			if w == 0 {
				return t.Val != 0
			}
			if b, isB := x.T.Underlying().(*types.Basic); isB && b.Kind() == types.Int32 && x.T == types.Typ[types.Int32] {
				return rune(int32(t.Val))
			}
			if signed {
				return t.SignedVal()
			}
			if w == 8 {
				return uint8(t.Val)
			}
			return t.Val
		}
		if s, ok := x.V.(*StringV); ok {
			if s.IsConcrete() {
				return s.Concrete()
			}
			if e.fmtStrict {
				panic(&concretizeReq{e.someSymbolicPart(s)})
			}
			e.Stubs["fmt: symbolic argument rendered as ?"]++
			return "?"
		}
		if p, ok := x.V.(*PtrV); ok && p.Obj != 0 {
			// errors.errorString and friends: show the first string field
			inner := e.load(st, p)
			if sv, ok := inner.(*StructV); ok {
				for _, fv := range sv.F {
					if s, ok := fv.(*StringV); ok && s.IsConcrete() {
						return s.Concrete()
					}
				}
			}
		}
		return "<" + x.T.String() + ">"
	}
	return "<?>"
}

func (e *Exec) formatArgs(st *State, format string, sl *SliceV, plain bool) string {
	var goargs []interface{}
	for i := 0; i < sl.Len; i++ {
		goargs = append(goargs, e.goValue(st, e.substConc(st, e.sliceElem(st, sl, i))))
	}
	if plain {
		return fmt.Sprint(goargs...)
	}
	return fmt.Sprintf(format, goargs...)
}

func fmtSprintf(e *Exec, st *State, f *Frame, fn *ssa.Function, args []Value) Value {
	fs := args[0].(*StringV)
	format := "?"
	if fs.IsConcrete() {
		format = fs.Concrete()
	}
	return &StringV{S: e.formatArgs(st, format, args[1].(*SliceV), false)}
}

func fmtSprint(e *Exec, st *State, f *Frame, fn *ssa.Function, args []Value) Value {
	return &StringV{S: e.formatArgs(st, "", args[0].(*SliceV), true)}
}

func fmtErrorf(e *Exec, st *State, f *Frame, fn *ssa.Function, args []Value) Value {
	s := fmtSprintf(e, st, f, fn, args).(*StringV)
	return e.newError(st, s)
}

// newError builds an *errors.errorString value through the program's own errors package.
func (e *Exec) newError(st *State, msg *StringV) Value {
	ef := e.lookupFunc("errors", "New")
	if ef == nil {
		unsupported("errors package not in program")
	}
	// errors.New returns &errorString{text}; build it directly
	var est types.Type
	for _, p := range e.prog.AllPackages() {
		if p.Pkg.Path() == "errors" {
			if t := p.Type("errorString"); t != nil {
				est = t.Type()
			}
		}
	}
	if est == nil {
		unsupported("errors.errorString not found")
	}
	id := e.newObject(st, &StructV{F: []Value{msg}})
	return &IfaceV{T: types.NewPointer(est), V: &PtrV{Obj: id}}
}

// sortSlice: insertion sort driven by the user's less function. Implemented as a small state machine
// over interpreter frames: each comparison is a real call of less.
func sortSlice(e *Exec, st *State, f *Frame, fn *ssa.Function, args []Value) Value {
	iv := args[0].(*IfaceV)
	sl, ok := iv.V.(*SliceV)
	if !ok {
		unsupported("sort.Slice of %T", iv.V)
	}
	less := args[1].(*FuncV)
	n := sl.Len
	if n < 2 {
		return &TupleV{}
	}
	// insertion sort: for i := 1; i < n; i++ { for j := i; j > 0 && less(j, j-1); j-- { swap(j, j-1) } }
	call := f.block.Instrs[f.pc]
	var stepFn func(st *State, caller *Frame, i, j int)
	stepFn = func(st *State, caller *Frame, i, j int) {
		for {
			if j == 0 {
				i++
				j = i
			}
			if i >= n {
				if v, ok := call.(ssa.Value); ok {
					e.set(caller, v, &TupleV{})
				}
				caller.pc++
				return
			}
			// call less(j, j-1)
			ci, cj := i, j
			e.pushFrame(st, less.Fn, []Value{e.ts.Const(64, uint64(j)), e.ts.Const(64, uint64(j-1))}, less.Bind, retNormal)
			st.top().cont = &sortCont{i: ci, j: cj, sl: sl, step: stepFn}
			return
		}
	}
	stepFn(st, f, 1, 1)
	return &pendingCall{}
}

type sortCont struct {
	i, j int
	sl   *SliceV
	step func(st *State, caller *Frame, i, j int)
}

func (e *Exec) sortResume(st *State, caller *Frame, c *sortCont, lt bool) {
	if lt {
		a := e.sliceElem(st, c.sl, c.j)
		b := e.sliceElem(st, c.sl, c.j-1)
		e.store(st, &PtrV{Obj: c.sl.Obj, Path: extendPath(c.sl.Path, PathElem{I: c.sl.Off + c.j})}, b)
		e.store(st, &PtrV{Obj: c.sl.Obj, Path: extendPath(c.sl.Path, PathElem{I: c.sl.Off + c.j - 1})}, a)
		c.step(st, caller, c.i, c.j-1)
		return
	}
	c.step(st, caller, c.i+1, c.i+1)
}

func (e *Exec) bytesOf(st *State, v Value) []*term.Term {
	switch x := v.(type) {
	case *StringV:
		return e.strBytes(x)
	case *SliceV:
		out := make([]*term.Term, x.Len)
		for i := 0; i < x.Len; i++ {
			out[i] = e.sliceElem(st, x, i).(*term.Term)
		}
		return out
	}
	panic(fmt.Sprintf("bytesOf %T", v))
}

func (e *Exec) indexByte(bs []*term.Term, c *term.Term) *term.Term {
	acc := e.ts.Const(64, ^uint64(0))
	for i := len(bs) - 1; i >= 0; i-- {
		acc = e.ts.Ite(e.ts.Eq(bs[i], c), e.ts.Const(64, uint64(i)), acc)
	}
	return acc
}

func bytealgIndexByteString(e *Exec, st *State, f *Frame, fn *ssa.Function, args []Value) Value {
	return e.indexByte(e.bytesOf(st, args[0]), args[1].(*term.Term))
}
func bytealgIndexByte(e *Exec, st *State, f *Frame, fn *ssa.Function, args []Value) Value {
	return e.indexByte(e.bytesOf(st, args[0]), args[1].(*term.Term))
}

func (e *Exec) countByte(bs []*term.Term, c *term.Term) *term.Term {
	acc := e.ts.Const(64, 0)
	for _, b := range bs {
		acc = e.ts.Add(acc, e.ts.Ite(e.ts.Eq(b, c), e.ts.Const(64, 1), e.ts.Const(64, 0)))
	}
	return acc
}
// bytealgIndexString: index of the first occurrence of the second operand in the first (lengths are concrete), -1 if none.
func bytealgIndexString(e *Exec, st *State, f *Frame, fn *ssa.Function, args []Value) Value {
	a, b := e.bytesOf(st, args[0]), e.bytesOf(st, args[1])
	res := e.ts.Const(64, ^uint64(0))
	for i := len(a) - len(b); i >= 0; i-- {
		eq := e.ts.True
		for j := range b {
			eq = e.ts.And(eq, e.ts.Eq(a[i+j], b[j]))
		}
		res = e.ts.Ite(eq, e.ts.Const(64, uint64(i)), res)
	}
	return res
}
func bytealgCountString(e *Exec, st *State, f *Frame, fn *ssa.Function, args []Value) Value {
	return e.countByte(e.bytesOf(st, args[0]), args[1].(*term.Term))
}
func bytealgCount(e *Exec, st *State, f *Frame, fn *ssa.Function, args []Value) Value {
	return e.countByte(e.bytesOf(st, args[0]), args[1].(*term.Term))
}
func bytealgEqual(e *Exec, st *State, f *Frame, fn *ssa.Function, args []Value) Value {
	a, b := e.bytesOf(st, args[0]), e.bytesOf(st, args[1])
	if len(a) != len(b) {
		return e.ts.False
	}
	acc := e.ts.True
	for i := range a {
		acc = e.ts.And(acc, e.ts.Eq(a[i], b[i]))
	}
	return acc
}
func bytealgCompare(e *Exec, st *State, f *Frame, fn *ssa.Function, args []Value) Value {
	a, b := e.bytesOf(st, args[0]), e.bytesOf(st, args[1])
	n := len(a)
	if len(b) < n {
		n = len(b)
	}
	k := func(v int64) *term.Term { return e.ts.Const(64, uint64(v)) }
	var acc *term.Term
	switch {
	case len(a) < len(b):
		acc = k(-1)
	case len(a) > len(b):
		acc = k(1)
	default:
		acc = k(0)
	}
	for i := n - 1; i >= 0; i-- {
		acc = e.ts.Ite(e.ts.Eq(a[i], b[i]), acc, e.ts.Ite(e.ts.Cmp(term.OpUlt, a[i], b[i]), k(-1), k(1)))
	}
	return acc
}

// fprintTo delivers text to an io.Writer value: *strings.Builder and *bytes.Buffer receive it through
// their own WriteString method (interpreted); any other writer drops it (logging / stderr).
func (e *Exec) fprintTo(st *State, f *Frame, fn *ssa.Function, w Value, text string) Value {
	res := &TupleV{E: []Value{e.ts.Const(64, uint64(len(text))), nilIface}}
	iv, ok := w.(*IfaceV)
	if !ok || iv.T == nil {
		return res
	}
	ts := iv.T.String()
	if ts != "*strings.Builder" && ts != "*bytes.Buffer" {
		return res
	}
	var m *ssa.Function
	for _, p := range e.prog.AllPackages() {
		if (p.Pkg.Path() == "strings" && ts == "*strings.Builder") || (p.Pkg.Path() == "bytes" && ts == "*bytes.Buffer") {
			m = e.prog.LookupMethod(iv.T, p.Pkg, "WriteString")
		}
	}
	if m == nil {
		unsupported("no WriteString for %s", ts)
	}
	call := f.block.Instrs[f.pc]
	e.pushFrame(st, m, []Value{iv.V, &StringV{S: text}}, nil, retNormal)
	st.top().cont = &funcCont{fn: func(st *State, caller *Frame, _ Value) {
		if v, ok := call.(ssa.Value); ok {
			e.set(caller, v, res)
		}
		caller.pc++
	}}
	return &pendingCall{}
}

func fmtFprintf(e *Exec, st *State, f *Frame, fn *ssa.Function, args []Value) Value {
	fs := args[1].(*StringV)
	format := "?"
	if fs.IsConcrete() {
		format = fs.Concrete()
	}
	e.fmtStrict = e.isBufferWriter(args[0])
	defer func() { e.fmtStrict = false }()
	return e.fprintTo(st, f, fn, args[0], e.formatArgs(st, format, args[2].(*SliceV), false))
}

func fmtFprint(e *Exec, st *State, f *Frame, fn *ssa.Function, args []Value) Value {
	e.fmtStrict = e.isBufferWriter(args[0])
	defer func() { e.fmtStrict = false }()
	return e.fprintTo(st, f, fn, args[0], e.formatArgs(st, "", args[1].(*SliceV), true))
}

func fmtFprintln(e *Exec, st *State, f *Frame, fn *ssa.Function, args []Value) Value {
	sl := args[1].(*SliceV)
	e.fmtStrict = e.isBufferWriter(args[0])
	defer func() { e.fmtStrict = false }()
	var goargs []interface{}
	for i := 0; i < sl.Len; i++ {
		goargs = append(goargs, e.goValue(st, e.substConc(st, e.sliceElem(st, sl, i))))
	}
	return e.fprintTo(st, f, fn, args[0], fmt.Sprintln(goargs...))
}

func (e *Exec) isBufferWriter(w Value) bool {
	iv, ok := w.(*IfaceV)
	if !ok || iv.T == nil {
		return false
	}
	ts := iv.T.String()
	return ts == "*strings.Builder" || ts == "*bytes.Buffer"
}

func bytealgMakeNoZero(e *Exec, st *State, f *Frame, fn *ssa.Function, args []Value) Value {
	n := e.concreteInt(st, args[0])
	if n < 0 || n > 1<<24 {
		unsupported("MakeNoZero(%d)", n)
	}
	return e.makeSlice(st, types.Typ[types.Byte], n, n)
}
