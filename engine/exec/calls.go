package exec

import (
	"fmt"
	"go/types"
	"strings"

	"golang.org/x/tools/go/ssa"

	"symgo/smt"
	"symgo/term"
)

func (e *Exec) lookupFunc(pkgPath, name string) *ssa.Function {
	key := pkgPath + "." + name
	if fn, ok := e.funcByName[key]; ok {
		return fn
	}
	var fn *ssa.Function
	for _, p := range e.prog.AllPackages() {
		if p.Pkg.Path() == pkgPath {
			fn = p.Func(name)
			break
		}
	}
	e.funcByName[key] = fn
	return fn
}

func (e *Exec) resolveInvoke(st *State, recv Value, m *types.Func) (*ssa.Function, Value) {
	iv, ok := recv.(*IfaceV)
	if !ok {
		if p, isP := recv.(*Poison); isP {
			unsupported("method call on poison value (%s)", p.Why)
		}
		panic(fmt.Sprintf("invoke on %T", recv))
	}
	if iv.T == nil {
		e.goPanic(st, "nil pointer dereference (method call on nil interface "+m.Name()+")")
	}
	fn := e.prog.LookupMethod(iv.T, m.Pkg(), m.Name())
	if fn == nil {
		unsupported("no method %s for %s", m.Name(), iv.T)
	}
	return fn, iv.V
}

func (e *Exec) call(st *State, f *Frame, in *ssa.Call) bool {
	cc := &in.Call
	var args []Value
	var fn *ssa.Function
	var bind []Value
	if cc.IsInvoke() {
		recv := e.get(st, f, cc.Value)
		var r Value
		fn, r = e.resolveInvoke(st, recv, cc.Method)
		args = append(args, r)
	} else {
		switch callee := cc.Value.(type) {
		case *ssa.Builtin:
			for _, a := range cc.Args {
				args = append(args, e.get(st, f, a))
			}
			res := e.builtin(st, f, callee, args, cc)
			e.set(f, in, res)
			f.pc++
			return false
		case *ssa.Function:
			fn = callee
		default:
			fv, ok := e.get(st, f, cc.Value).(*FuncV)
			if !ok {
				unsupported("call through %T", e.get(st, f, cc.Value))
			}
			if fv.Fn == nil {
				e.goPanic(st, "call of nil function")
			}
			fn = fv.Fn
			bind = fv.Bind
		}
	}
	for _, a := range cc.Args {
		args = append(args, e.get(st, f, a))
	}
	return e.invoke(st, f, in, fn, args, bind)
}

// invoke calls fn; in is the call instruction of frame f (result stored there).
func (e *Exec) invoke(st *State, f *Frame, in ssa.Value, fn *ssa.Function, args, bind []Value) bool {
	name := fn.String()
	if h, ok := intrinsics[name]; ok {
		e.Stubs[name]++
		res := h(e, st, f, fn, args)
		if res != nil || true {
			if res == nil {
				res = &TupleV{}
			}
			if _, pending := res.(*pendingCall); pending {
				return false
			}
			e.set(f, in, res)
			f.pc++
		}
		return false
	}
	if len(fn.Blocks) == 0 {
		if res, ok := e.harnessIntrinsic(st, f, fn, args); ok {
			if res == nil {
				res = &TupleV{}
			}
			e.set(f, in, res)
			f.pc++
			return false
		}
		unsupported("call of body-less function %s", name)
	}
	e.FuncInstrs[name]++
	e.pushFrame(st, fn, args, bind, retNormal)
	return false
}

type pendingCall struct{}

func (e *Exec) callDeferred(st *State, f *Frame, d *deferred, unwinding bool) {
	switch fnv := d.fn.(type) {
	case *ssa.Builtin:
		e.builtin(st, f, fnv, d.args, &d.call.Call)
		if unwinding {
			st.panicking = !f.recovered
		}
		return
	case *FuncV:
		if fnv.Fn == nil {
			e.goPanic(st, "deferred call of nil function")
		}
		if _, ok := intrinsics[fnv.Fn.String()]; ok || len(fnv.Fn.Blocks) == 0 {
			if unwinding {
				st.panicking = true
			}
			return
		}
		e.pushFrame(st, fnv.Fn, d.args, fnv.Bind, retDefer)
		nf := st.top()
		if unwinding {
			nf.cont = &unwindCont{}
			nf.panicOwner = len(st.frames) - 1 // index of f plus one
		}
	default:
		panic(fmt.Sprintf("callDeferred: %T", d.fn))
	}
}

func (e *Exec) returnZero(st *State, f *Frame) {
	sig := f.fn.Signature
	var res Value
	switch sig.Results().Len() {
	case 0:
	case 1:
		res = e.zero(sig.Results().At(0).Type())
	default:
		res = e.zero(sig.Results())
	}
	e.popFrame(st, f, res)
}

// ---------------------------------------------------------------------------
// builtins

func (e *Exec) builtin(st *State, f *Frame, b *ssa.Builtin, args []Value, cc *ssa.CallCommon) Value {
	switch b.Name() {
	case "len":
		switch x := args[0].(type) {
		case *StringV:
			return e.ts.Const(64, uint64(x.Len()))
		case *SliceV:
			return e.ts.Const(64, uint64(x.Len))
		case *MapV:
			if x.Obj == 0 {
				return e.ts.Const(64, 0)
			}
			md := e.getObject(st, x.Obj).V.(*MapData)
			n := 0
			for i := range md.Keys {
				if e.entryPresent(st, md, i) {
					n++
				}
			}
			return e.ts.Const(64, uint64(n))
		case *ArrayV:
			return e.ts.Const(64, uint64(len(x.E)))
		case *PtrV:
			n := cc.Args[0].Type().Underlying().(*types.Pointer).Elem().Underlying().(*types.Array).Len()
			return e.ts.Const(64, uint64(n))
		case *ChanV:
			return e.ts.Const(64, 0)
		}
	case "cap":
		switch x := args[0].(type) {
		case *SliceV:
			return e.ts.Const(64, uint64(x.Cap))
		case *ArrayV:
			return e.ts.Const(64, uint64(len(x.E)))
		case *PtrV:
			n := cc.Args[0].Type().Underlying().(*types.Pointer).Elem().Underlying().(*types.Array).Len()
			return e.ts.Const(64, uint64(n))
		}
	case "append":
		s := args[0].(*SliceV)
		var add []Value
		switch y := args[1].(type) {
		case *SliceV:
			for i := 0; i < y.Len; i++ {
				add = append(add, e.sliceElem(st, y, i))
			}
		case *StringV:
			for i := 0; i < y.Len(); i++ {
				add = append(add, e.strByte(y, i))
			}
		default:
			panic(fmt.Sprintf("append of %T", args[1]))
		}
		elem := cc.Args[0].Type().Underlying().(*types.Slice).Elem()
		return e.appendSlice(st, s, add, elem)
	case "copy":
		dst := args[0].(*SliceV)
		var src []Value
		switch y := args[1].(type) {
		case *SliceV:
			for i := 0; i < y.Len; i++ {
				src = append(src, e.sliceElem(st, y, i))
			}
		case *StringV:
			for i := 0; i < y.Len(); i++ {
				src = append(src, e.strByte(y, i))
			}
		}
		n := len(src)
		if dst.Len < n {
			n = dst.Len
		}
		for i := 0; i < n; i++ {
			e.store(st, &PtrV{Obj: dst.Obj, Path: extendPath(dst.Path, PathElem{I: dst.Off + i})}, src[i])
		}
		return e.ts.Const(64, uint64(n))
	case "delete":
		m := args[0].(*MapV)
		if m.Obj != 0 {
			e.mapDelete(st, m, args[1])
		}
		return &TupleV{}
	case "clear":
		switch x := args[0].(type) {
		case *MapV:
			if x.Obj != 0 {
				e.writableObject(st, x.Obj).V = &MapData{}
			}
		case *SliceV:
			elem := cc.Args[0].Type().Underlying().(*types.Slice).Elem()
			z := e.zero(elem)
			for i := 0; i < x.Len; i++ {
				e.store(st, &PtrV{Obj: x.Obj, Path: extendPath(x.Path, PathElem{I: x.Off + i})}, z)
			}
		}
		return &TupleV{}
	case "min", "max":
		_, signed, _ := intWidth(cc.Args[0].Type())
		acc := args[0]
		for _, a := range args[1:] {
			switch x := acc.(type) {
			case *term.Term:
				y := a.(*term.Term)
				var lt *term.Term
				if signed {
					lt = e.ts.Cmp(term.OpSlt, y, x)
				} else {
					lt = e.ts.Cmp(term.OpUlt, y, x)
				}
				if b.Name() == "min" {
					acc = e.ts.Ite(lt, y, x)
				} else {
					acc = e.ts.Ite(lt, x, y)
				}
			default:
				unsupported("min/max on %T", acc)
			}
		}
		return acc
	case "print", "println":
		return &TupleV{}
	case "recover":
		// valid only in a deferred function during panicking
		if len(st.frames) >= 2 && st.top().panicOwner > 0 {
			owner := st.frames[st.top().panicOwner-1]
			if !owner.recovered && st.panicVal != nil {
				owner.recovered = true
				v := st.panicVal
				st.panicVal = nil
				if iv, ok := v.(*IfaceV); ok {
					return iv
				}
				return nilIface
			}
		}
		return nilIface
	case "close":
		ch := args[0].(*ChanV)
		if ch.Obj == 0 {
			e.goPanic(st, "close of nil channel")
		}
		e.writableObject(st, ch.Obj).V = &ChanData{Closed: e.ts.True}
		return &TupleV{}
	case "SliceData":
		sv := args[0].(*SliceV)
		if sv.Obj == 0 {
			return nilPtr
		}
		return &PtrV{Obj: sv.Obj, Path: extendPath(sv.Path, PathElem{I: sv.Off})}
	case "String":
		// unsafe.String(ptr, len): snapshot of len bytes starting at ptr (which came from SliceData)
		n := e.concreteInt(st, args[1])
		p := args[0].(*PtrV)
		if n == 0 {
			return &StringV{S: ""}
		}
		if p.Obj == 0 || len(p.Path) == 0 || p.Path[len(p.Path)-1].Sym != nil {
			unsupported("unsafe.String on unsupported pointer")
		}
		basePath := p.Path[:len(p.Path)-1]
		off := p.Path[len(p.Path)-1].I
		arr, ok := e.loadPath(st, e.getObject(st, p.Obj).V, basePath).(*ArrayV)
		if !ok || off+n > len(arr.E) {
			unsupported("unsafe.String out of backing array")
		}
		bs := make([]*term.Term, n)
		for i := 0; i < n; i++ {
			bs[i] = arr.E[off+i].(*term.Term)
		}
		return e.mkString(bs)
	case "ssa:wrapnilchk":
		if p, ok := args[0].(*PtrV); ok && p.Obj == 0 {
			e.goPanic(st, "value method called using nil pointer")
		}
		return args[0]
	}
	unsupported("builtin %s on %T", b.Name(), args[0])
	return nil
}

var sizeClasses = []int{0, 8, 16, 24, 32, 48, 64, 80, 96, 112, 128, 144, 160, 176, 192, 208, 224, 240, 256, 288, 320, 352, 384, 416, 448, 480, 512, 576, 640, 704, 768, 896, 1024, 1152, 1280, 1408, 1536, 1792, 2048, 2304, 2688, 3072, 3200, 3456, 4096, 4864, 5376, 6144, 6528, 6784, 6912, 8192, 9472, 9728, 10240, 10880, 12288, 13568, 14336, 16384, 18432, 19072, 20480, 21760, 24576, 27264, 28672, 32768}

func roundupsize(n int) int {
	if n <= 32768 {
		for _, c := range sizeClasses {
			if c >= n {
				return c
			}
		}
	}
	// page-rounded
	return (n + 8191) &^ 8191
}

// growCap mimics runtime.growslice's capacity choice (amd64, Go 1.20+).
func growCap(oldCap, newLen, elemSize int) int {
	newcap := oldCap
	doublecap := newcap + newcap
	if newLen > doublecap {
		newcap = newLen
	} else {
		const threshold = 256
		if oldCap < threshold {
			newcap = doublecap
		} else {
			for 0 < newcap && newcap < newLen {
				newcap += (newcap + 3*threshold) >> 2
			}
			if newcap <= 0 {
				newcap = newLen
			}
		}
	}
	if elemSize <= 0 {
		return newcap
	}
	mem := roundupsize(newcap * elemSize)
	return mem / elemSize
}

var sizes = types.SizesFor("gc", "amd64")

func (e *Exec) appendSlice(st *State, s *SliceV, add []Value, elem types.Type) *SliceV {
	if len(add) == 0 {
		return s
	}
	newLen := s.Len + len(add)
	if s.Obj != 0 && newLen <= s.Cap {
		for i, v := range add {
			e.store(st, &PtrV{Obj: s.Obj, Path: extendPath(s.Path, PathElem{I: s.Off + s.Len + i})}, v)
		}
		return &SliceV{Obj: s.Obj, Path: s.Path, Off: s.Off, Len: newLen, Cap: s.Cap}
	}
	es := int(sizes.Sizeof(elem))
	nc := growCap(s.Cap, newLen, es)
	if nc < newLen {
		nc = newLen
	}
	el := make([]Value, nc)
	for i := 0; i < s.Len; i++ {
		el[i] = e.sliceElem(st, s, i)
	}
	copy(el[s.Len:], add)
	if nc > newLen {
		z := e.zero(elem)
		for i := newLen; i < nc; i++ {
			el[i] = z
		}
	}
	id := e.newObject(st, &ArrayV{E: el})
	return &SliceV{Obj: id, Len: newLen, Cap: nc}
}

// ---------------------------------------------------------------------------
// maps (association lists)

// keyEq returns the equality term between a stored key and a probe key.
func (e *Exec) keyEq(st *State, a, b Value) *term.Term {
	if a == b {
		return e.ts.True
	}
	return e.valueEq(st, a, b)
}

func (e *Exec) mapLookup(st *State, m *MapV, key Value, elem types.Type) (Value, *term.Term) {
	zero := e.zero(elem)
	if m.Obj == 0 {
		return zero, e.ts.False
	}
	key = e.substConc(st, key)
	md := e.getObject(st, m.Obj).V.(*MapData)
	val := zero
	found := e.ts.False
	for i := len(md.Keys) - 1; i >= 0; i-- {
		ki := e.substConc(st, md.Keys[i])
		eq := e.keyEq(st, ki, key)
		if md.Present != nil {
			eq = e.ts.And(e.substConc(st, md.Present[i]).(*term.Term), eq)
		}
		if eq.IsFalse() {
			continue
		}
		if eq.IsTrue() {
			val = md.Vals[i]
			found = e.ts.True
			continue
		}
		mv, ok := e.mergeValue(eq, md.Vals[i], val)
		if !ok {
			if t := e.someSymbolicPart(key); t != nil {
				panic(&concretizeReq{t})
			}
			if t := e.someSymbolicPart(ki); t != nil {
				panic(&concretizeReq{t})
			}
			panic(&concretizeReq{eq})
		}
		val = mv
		found = e.ts.Or(eq, found)
	}
	return val, found
}

// entryPresent decides (concretising if needed) whether entry i of md exists on this path.
func (e *Exec) entryPresent(st *State, md *MapData, i int) bool {
	if md.Present == nil {
		return true
	}
	return e.concrete(st, md.Present[i]) != 0
}

// someSymbolicPart finds a symbolic scalar inside key to concretise.
func (e *Exec) someSymbolicPart(v Value) *term.Term {
	switch x := v.(type) {
	case *term.Term:
		if !x.IsConst() {
			return x
		}
	case *StringV:
		for _, b := range x.B {
			if !b.IsConst() {
				return b
			}
		}
	case *StructV:
		for _, f := range x.F {
			if t := e.someSymbolicPart(f); t != nil {
				return t
			}
		}
	case *ArrayV:
		for _, f := range x.E {
			if t := e.someSymbolicPart(f); t != nil {
				return t
			}
		}
	case *IfaceV:
		if x.T != nil {
			return e.someSymbolicPart(x.V)
		}
	}
	return nil
}

// substConc replaces scalar terms that were concretised on this path by their constants.
func (e *Exec) substConc(st *State, v Value) Value {
	if len(st.conc) == 0 && len(st.pinned) == 0 {
		return v
	}
	switch x := v.(type) {
	case *term.Term:
		if !x.IsConst() {
			if c, ok := st.conc[x.ID]; ok {
				return e.ts.Const(x.W, c)
			}
			if c, ok := e.pinnedConst(st, x); ok {
				if x.W == 0 {
					return e.ts.Bool(c != 0)
				}
				return e.ts.Const(x.W, c)
			}
		}
	case *StringV:
		if x.B != nil {
			bs := make([]*term.Term, len(x.B))
			for i, b := range x.B {
				bs[i] = e.substConc(st, b).(*term.Term)
			}
			return e.mkString(bs)
		}
	case *StructV:
		nf := make([]Value, len(x.F))
		for i, f := range x.F {
			nf[i] = e.substConc(st, f)
		}
		return &StructV{F: nf}
	case *ArrayV:
		nf := make([]Value, len(x.E))
		for i, f := range x.E {
			nf[i] = e.substConc(st, f)
		}
		return &ArrayV{E: nf}
	case *IfaceV:
		if x.T != nil {
			return &IfaceV{T: x.T, V: e.substConc(st, x.V)}
		}
	}
	return v
}

func (e *Exec) concreteKey(st *State, key Value) Value {
	// replace concretised terms by constants so that keys compare syntactically
	switch x := key.(type) {
	case *term.Term:
		if !x.IsConst() {
			return e.ts.Const(x.W, e.concrete(st, x))
		}
	case *StringV:
		if x.B != nil {
			bs := make([]*term.Term, len(x.B))
			for i, b := range x.B {
				bs[i] = e.ts.Const(8, e.concrete(st, b))
			}
			return e.mkString(bs)
		}
	case *StructV:
		nf := make([]Value, len(x.F))
		for i, f := range x.F {
			nf[i] = e.concreteKey(st, f)
		}
		return &StructV{F: nf}
	case *ArrayV:
		nf := make([]Value, len(x.E))
		for i, f := range x.E {
			nf[i] = e.concreteKey(st, f)
		}
		return &ArrayV{E: nf}
	case *IfaceV:
		if x.T != nil {
			return &IfaceV{T: x.T, V: e.concreteKey(st, x.V)}
		}
	}
	return key
}

func (e *Exec) mapUpdate(st *State, m *MapV, key, val Value) {
	if m.Obj == 0 {
		e.goPanic(st, "assignment to entry in nil map")
	}
	key = e.substConc(st, key)
	o := e.writableObject(st, m.Obj)
	md := o.V.(*MapData)
	// does an entry certainly carry this key?
	eqs := make([]*term.Term, len(md.Keys))
	anyEq := e.ts.False
	for i, k := range md.Keys {
		k = e.substConc(st, k)
		eq := e.keyEq(st, k, key)
		if md.Present != nil {
			eq = e.ts.And(e.substConc(st, md.Present[i]).(*term.Term), eq)
		}
		eqs[i] = eq
		if eq.IsTrue() {
			nv := append([]Value(nil), md.Vals...)
			nv[i] = val
			o.V = &MapData{Keys: md.Keys, Vals: nv, Present: md.Present}
			return
		}
		anyEq = e.ts.Or(anyEq, eq)
	}
	nk := append(append([]Value(nil), md.Keys...), key)
	if anyEq.IsFalse() {
		nv := append(append([]Value(nil), md.Vals...), val)
		var np []*term.Term
		if md.Present != nil {
			np = append(append([]*term.Term(nil), md.Present...), e.ts.True)
		}
		o.V = &MapData{Keys: nk, Vals: nv, Present: np}
		return
	}
	// symbolic case: overwrite the matching entry (if any), otherwise a new entry exists
	nv := make([]Value, 0, len(md.Vals)+1)
	for i := range md.Vals {
		if eqs[i].IsFalse() {
			nv = append(nv, md.Vals[i])
			continue
		}
		mv, ok := e.mergeValue(eqs[i], val, md.Vals[i])
		if !ok {
			if t := e.someSymbolicPart(key); t != nil {
				panic(&concretizeReq{t})
			}
			if t := e.someSymbolicPart(e.substConc(st, md.Keys[i])); t != nil {
				panic(&concretizeReq{t})
			}
			panic(&concretizeReq{eqs[i]})
		}
		nv = append(nv, mv)
	}
	nv = append(nv, val)
	np := make([]*term.Term, 0, len(md.Keys)+1)
	for i := range md.Keys {
		if md.Present != nil {
			np = append(np, md.Present[i])
		} else {
			np = append(np, e.ts.True)
		}
	}
	np = append(np, e.ts.Not(anyEq))
	o.V = &MapData{Keys: nk, Vals: nv, Present: np}
}

func (e *Exec) mapDelete(st *State, m *MapV, key Value) {
	key = e.substConc(st, key)
	o := e.writableObject(st, m.Obj)
	md := o.V.(*MapData)
	np := make([]*term.Term, len(md.Keys))
	changed := false
	for i, k := range md.Keys {
		p := e.ts.True
		if md.Present != nil {
			p = md.Present[i]
		}
		eq := e.keyEq(st, e.substConc(st, k), key)
		np[i] = e.ts.And(p, e.ts.Not(eq))
		if np[i] != p {
			changed = true
		}
	}
	if !changed {
		return
	}
	// drop entries that are certainly gone
	var nk, nv []Value
	var pp []*term.Term
	allTrue := true
	for i := range md.Keys {
		if np[i].IsFalse() {
			continue
		}
		nk = append(nk, md.Keys[i])
		nv = append(nv, md.Vals[i])
		pp = append(pp, np[i])
		if !np[i].IsTrue() {
			allTrue = false
		}
	}
	if allTrue {
		pp = nil
	}
	o.V = &MapData{Keys: nk, Vals: nv, Present: pp}
}

// ---------------------------------------------------------------------------
// select (non-blocking forms and ctx.Done() style receives)

func (e *Exec) selectOp(st *State, f *Frame, in *ssa.Select) Value {
	// result tuple: (index int, recvOk bool, r_0 T_0, ... r_n-1 T_n-1)
	var ready *term.Term = e.ts.False
	readyIdx := -1
	for i, s := range in.States {
		if s.Dir != types.RecvOnly {
			unsupported("select with send case")
		}
		ch := e.get(st, f, s.Chan).(*ChanV)
		if ch.Obj == 0 {
			continue
		}
		cd := e.getObject(st, ch.Obj).V.(*ChanData)
		if cd.Closed.IsFalse() {
			continue
		}
		if readyIdx >= 0 {
			unsupported("select with several possibly-ready channels")
		}
		ready = cd.Closed
		readyIdx = i
	}
	if !in.Blocking {
		// default case present
		idx := e.ts.Ite(ready, e.ts.Const(64, uint64(maxInt(readyIdx, 0))), e.ts.Const(64, ^uint64(0)))
		res := []Value{idx, e.ts.False}
		for _, s := range in.States {
			if s.Dir == types.RecvOnly {
				res = append(res, e.zero(s.Chan.Type().Underlying().(*types.Chan).Elem()))
			}
		}
		return &TupleV{E: res}
	}
	if readyIdx < 0 || !ready.IsTrue() {
		unsupported("blocking select without a definitely-ready channel")
	}
	res := []Value{e.ts.Const(64, uint64(readyIdx)), e.ts.False}
	for _, s := range in.States {
		if s.Dir == types.RecvOnly {
			res = append(res, e.zero(s.Chan.Type().Underlying().(*types.Chan).Elem()))
		}
	}
	return &TupleV{E: res}
}

func maxInt(a, b int) int {
	if a > b {
		return a
	}
	return b
}

// ---------------------------------------------------------------------------
// harness intrinsics (body-less functions declared by harnesses)

func (e *Exec) newNondet(st *State, w uint8, hint string) *term.Term {
	name := fmt.Sprintf("n%d", len(st.nondet))
	if w == 0 {
		name += "b"
	} else {
		name += fmt.Sprintf("w%d", w)
	}
	v := e.ts.Var(name, w)
	st.nondet = append(st.nondet, v)
	return v
}

func (e *Exec) harnessIntrinsic(st *State, f *Frame, fn *ssa.Function, args []Value) (Value, bool) {
	name := fn.Name()
	switch {
	case strings.HasPrefix(name, "nondet"):
		e.needVerified(st)
		rt := fn.Signature.Results().At(0).Type()
		w, _, ok := intWidth(rt)
		if !ok {
			unsupported("nondet function with result type %s", rt)
		}
		return e.newNondet(st, w, name), true
	case name == "verifAssume":
		c := args[0].(*term.Term)
		e.assume(st, c)
		return nil, true
	case name == "verifAssert":
		c := args[0].(*term.Term)
		id := "?"
		if s, ok := args[1].(*StringV); ok && s.IsConcrete() {
			id = s.Concrete()
		}
		e.assert(st, c, id)
		return nil, true
	case name == "verifUnreachable":
		id := "?"
		if s, ok := args[0].(*StringV); ok && s.IsConcrete() {
			id = s.Concrete()
		}
		e.assert(st, e.ts.False, id)
		return nil, true
	case name == "verifParam":
		pn := args[0].(*StringV).Concrete()
		v, ok := e.cfg.Params[pn]
		if !ok {
			unsupported("verifParam(%q) not supplied", pn)
		}
		return e.ts.Const(64, uint64(int64(v))), true
	case name == "verifChoice":
		if st.choice != nil {
			k := *st.choice
			st.choice = nil
			return e.ts.Const(64, k), true
		}
		n := e.concreteInt(st, args[0])
		if n <= 0 {
			panic(&execPanic{kind: "infeasible", msg: "verifChoice(0)"})
		}
		if n == 1 {
			// still consumes a witness slot so that replay stays aligned
			v := e.newNondet(st, 64, "choice")
			st.addPC(e.ts.Eq(v, e.ts.Const(64, 0)))
			return e.ts.Const(64, 0), true
		}
		panic(&choiceReq{n})
	case name == "verifWitnessMode":
		return e.ts.Bool(e.cfg.Witness), true
	case name == "verifB2I":
		return e.ts.Ite(args[0].(*term.Term), e.ts.Const(64, 1), e.ts.Const(64, 0)), true
	case name == "verifIte":
		return e.ts.Ite(args[0].(*term.Term), args[1].(*term.Term), args[2].(*term.Term)), true
	case name == "verifConcretize":
		t := args[0].(*term.Term)
		return e.ts.Const(t.W, e.concrete(st, t)), true
	case name == "verifNote":
		var parts []string
		for _, a := range args {
			switch x := a.(type) {
			case *StringV:
				if x.IsConcrete() {
					parts = append(parts, x.Concrete())
				} else {
					parts = append(parts, showValue(x))
				}
			case *SliceV:
				for i := 0; i < x.Len; i++ {
					parts = append(parts, showValue(e.sliceElem(st, x, i)))
				}
			default:
				parts = append(parts, showValue(a))
			}
		}
		if len(st.notes) < 64 {
			st.notes = append(st.notes, strings.Join(parts, " "))
		}
		return nil, true
	case name == "verifStop":
		panic(&execPanic{kind: "stop", msg: "verifStop"})
	}
	return nil, false
}

func (e *Exec) assume(st *State, c *term.Term) {
	if c.IsTrue() {
		return
	}
	e.needVerified(st)
	if c.IsFalse() {
		panic(&execPanic{kind: "infeasible", msg: "assumption false"})
	}
	st.addPC(c)
	if e.ts.Eval(c, st.witness) != 0 {
		return
	}
	res, m := e.checkW(st, "assume", e.ts.True)
	switch res {
	case smt.Sat:
		st.witness = m
	case smt.Unsat:
		panic(&execPanic{kind: "infeasible", msg: "assumption unsatisfiable"})
	default:
		e.CapsHit["unknown-branch: solver unknown on assumption"]++
		panic(&execPanic{kind: "internal", msg: "solver unknown on assumption"})
	}
}

func (e *Exec) assert(st *State, c *term.Term, id string) {
	as := e.Asserts[id]
	if as == nil {
		as = &AssertStat{}
		e.Asserts[id] = as
	}
	as.Checked++
	if c.IsTrue() {
		as.Trivial++
		return
	}
	if v, ok := e.pinnedConst(st, c); ok && v != 0 && !st.unverified {
		return // decided by values the path condition pins
	}
	e.needVerified(st)
	neg := e.ts.Not(c)
	var res smt.Result
	var m *term.Model
	if e.ts.Eval(neg, st.witness) != 0 {
		res, m = smt.Sat, st.witness
	} else {
		res, m = e.checkW(st, "assert", neg)
	}
	switch res {
	case smt.Unsat:
		return
	case smt.Unknown:
		as.Unknown++
		e.CapsHit["unknown-assert: "+id]++
		return
	}
	as.Failed++
	vs := e.fork(st)
	vs.witness = m
	vs.addPC(neg)
	e.addViolation(vs, "assert", id, "assertion "+id+" can fail")
	// continue with the assertion assumed, if possible
	st.addPC(c)
	if e.ts.Eval(c, st.witness) == 0 {
		r2, m2 := e.checkW(st, "assert-cont", e.ts.True)
		if r2 == smt.Sat {
			st.witness = m2
		} else {
			panic(&execPanic{kind: "infeasible", msg: "assertion " + id + " always fails here"})
		}
	}
}
