package exec

import (
	"fmt"
	"go/types"
	"strings"

	"golang.org/x/tools/go/ssa"

	"symgo/term"
)

// Value is one of: *term.Term, *StructV, *ArrayV, *TupleV, *PtrV, *SliceV, *StringV, *IfaceV,
// *FuncV, *MapV, *ChanV, *IterV, *FloatV, *Poison.
type Value interface{}

type StructV struct{ F []Value }
type ArrayV struct {
	E     []Value
	owner int // epoch of the state allowed to mutate E in place (0 = shared)
}
type TupleV struct{ E []Value }

type PathElem struct {
	I   int
	Sym *term.Term // non-nil: symbolic index (64-bit), I unused
}

type PtrV struct {
	Obj  int // 0 = nil
	Path []PathElem
}

type SliceV struct {
	Obj           int // 0 = nil slice
	Path          []PathElem
	Off, Len, Cap int
}

type StringV struct {
	S string
	B []*term.Term // non-nil: symbolic bytes, S unused
}

type IfaceV struct {
	T types.Type // nil = nil interface
	V Value
}

type FuncV struct {
	Fn   *ssa.Function // nil = nil func
	Bind []Value
}

type MapV struct{ Obj int }
type ChanV struct{ Obj int }
type IterV struct{ Obj int }
type FloatV struct{ F float64 }
type Poison struct{ Why string }

type MapData struct {
	Keys []Value
	Vals []Value
	// Present[i] tells whether entry i exists (nil = every entry exists). Entries inserted under a symbolic
	// key carry the condition "no earlier entry has this key"; at most one present entry matches any key.
	Present []*term.Term
}

type IterData struct {
	Str   *StringV
	Keys  []Value // map snapshot
	Map   int
	Pos   int
	IsStr bool
}

type ChanData struct {
	Closed *term.Term // Bool
}

type Object struct {
	V     Value
	epoch int
}

var nilPtr = &PtrV{}
var nilSlice = &SliceV{}
var nilIface = &IfaceV{}
var nilFunc = &FuncV{}
var nilMap = &MapV{}
var nilChan = &ChanV{}

func (s *StringV) Len() int {
	if s.B != nil {
		return len(s.B)
	}
	return len(s.S)
}

func (s *StringV) IsConcrete() bool {
	if s.B == nil {
		return true
	}
	for _, b := range s.B {
		if !b.IsConst() {
			return false
		}
	}
	return true
}

func (s *StringV) Concrete() string {
	if s.B == nil {
		return s.S
	}
	bs := make([]byte, len(s.B))
	for i, b := range s.B {
		bs[i] = byte(b.Val)
	}
	return string(bs)
}

func (e *Exec) strByte(s *StringV, i int) *term.Term {
	if s.B != nil {
		return s.B[i]
	}
	return e.ts.Const(8, uint64(s.S[i]))
}

func (e *Exec) strBytes(s *StringV) []*term.Term {
	if s.B != nil {
		return s.B
	}
	out := make([]*term.Term, len(s.S))
	for i := 0; i < len(s.S); i++ {
		out[i] = e.ts.Const(8, uint64(s.S[i]))
	}
	return out
}

// mkString builds a StringV from bytes, collapsing to a concrete string when possible.
func (e *Exec) mkString(bs []*term.Term) *StringV {
	conc := true
	for _, b := range bs {
		if !b.IsConst() {
			conc = false
			break
		}
	}
	if conc {
		buf := make([]byte, len(bs))
		for i, b := range bs {
			buf[i] = byte(b.Val)
		}
		return &StringV{S: string(buf)}
	}
	if bs == nil {
		bs = []*term.Term{}
	}
	return &StringV{B: bs}
}

func pathEq(a, b []PathElem) bool {
	if len(a) != len(b) {
		return false
	}
	for i := range a {
		if a[i] != b[i] {
			return false
		}
	}
	return true
}

func extendPath(p []PathElem, e PathElem) []PathElem {
	np := make([]PathElem, len(p)+1)
	copy(np, p)
	np[len(p)] = e
	return np
}

// ---------------------------------------------------------------------------
// type helpers

func intWidth(t types.Type) (w uint8, signed bool, ok bool) {
	b, isB := t.Underlying().(*types.Basic)
	if !isB {
		return 0, false, false
	}
	switch b.Kind() {
	case types.Bool, types.UntypedBool:
		return 0, false, true
	case types.Int8:
		return 8, true, true
	case types.Int16:
		return 16, true, true
	case types.Int32, types.UntypedRune:
		return 32, true, true
	case types.Int, types.Int64, types.UntypedInt:
		return 64, true, true
	case types.Uint8:
		return 8, false, true
	case types.Uint16:
		return 16, false, true
	case types.Uint32:
		return 32, false, true
	case types.Uint, types.Uint64, types.Uintptr:
		return 64, false, true
	}
	return 0, false, false
}

func isString(t types.Type) bool {
	b, ok := t.Underlying().(*types.Basic)
	return ok && b.Info()&types.IsString != 0
}

func isFloat(t types.Type) bool {
	b, ok := t.Underlying().(*types.Basic)
	return ok && b.Info()&(types.IsFloat|types.IsComplex) != 0
}

func (e *Exec) zero(t types.Type) Value {
	switch u := t.Underlying().(type) {
	case *types.Basic:
		if w, _, ok := intWidth(u); ok {
			return e.ts.Const(w, 0)
		}
		if u.Info()&types.IsString != 0 {
			return &StringV{}
		}
		if u.Kind() == types.UnsafePointer {
			return nilPtr
		}
		if u.Info()&(types.IsFloat|types.IsComplex) != 0 {
			return &FloatV{}
		}
		if u.Kind() == types.UntypedNil {
			return nilPtr
		}
		return &Poison{"zero of " + t.String()}
	case *types.Pointer:
		return nilPtr
	case *types.Slice:
		return nilSlice
	case *types.Map:
		return nilMap
	case *types.Chan:
		return nilChan
	case *types.Signature:
		return nilFunc
	case *types.Interface:
		return nilIface
	case *types.Struct:
		f := make([]Value, u.NumFields())
		for i := range f {
			f[i] = e.zero(u.Field(i).Type())
		}
		return &StructV{F: f}
	case *types.Array:
		n := int(u.Len())
		el := make([]Value, n)
		if n > 0 {
			z := e.zero(u.Elem())
			for i := range el {
				el[i] = z // zero values are immutable and may be shared
			}
		}
		return &ArrayV{E: el}
	case *types.Tuple:
		f := make([]Value, u.Len())
		for i := range f {
			f[i] = e.zero(u.At(i).Type())
		}
		return &TupleV{E: f}
	}
	return &Poison{"zero of " + t.String()}
}

func showValue(v Value) string {
	switch x := v.(type) {
	case nil:
		return "<nil>"
	case *term.Term:
		return x.String()
	case *StructV:
		var parts []string
		for _, f := range x.F {
			parts = append(parts, showValue(f))
		}
		return "{" + strings.Join(parts, ",") + "}"
	case *ArrayV:
		var parts []string
		for i, f := range x.E {
			if i > 8 {
				parts = append(parts, "...")
				break
			}
			parts = append(parts, showValue(f))
		}
		return "[" + strings.Join(parts, ",") + "]"
	case *TupleV:
		var parts []string
		for _, f := range x.E {
			parts = append(parts, showValue(f))
		}
		return "(" + strings.Join(parts, ",") + ")"
	case *PtrV:
		if x.Obj == 0 {
			return "nilptr"
		}
		return fmt.Sprintf("&o%d%v", x.Obj, x.Path)
	case *SliceV:
		if x.Obj == 0 {
			return "nilslice"
		}
		return fmt.Sprintf("slice(o%d%v,%d,%d,%d)", x.Obj, x.Path, x.Off, x.Len, x.Cap)
	case *StringV:
		if x.B == nil {
			return fmt.Sprintf("%q", x.S)
		}
		var parts []string
		for _, b := range x.B {
			parts = append(parts, b.String())
		}
		return "str[" + strings.Join(parts, ",") + "]"
	case *IfaceV:
		if x.T == nil {
			return "niliface"
		}
		return fmt.Sprintf("iface(%s:%s)", x.T, showValue(x.V))
	case *FuncV:
		if x.Fn == nil {
			return "nilfunc"
		}
		return "func " + x.Fn.String()
	case *MapV:
		return fmt.Sprintf("map(o%d)", x.Obj)
	case *Poison:
		return "poison(" + x.Why + ")"
	case *FloatV:
		return fmt.Sprintf("%g", x.F)
	}
	return fmt.Sprintf("%T", v)
}
