package exec

import (
	"fmt"
	"go/token"
	"go/types"
	"unicode/utf8"

	"golang.org/x/tools/go/ssa"

	"symgo/term"
)

func (e *Exec) binop(st *State, op token.Token, x, y Value, xt types.Type) Value {
	switch a := x.(type) {
	case *term.Term:
		b, ok := y.(*term.Term)
		if !ok {
			if p, isP := y.(*Poison); isP {
				return p
			}
			panic(fmt.Sprintf("binop %s: %T vs %T", op, x, y))
		}
		return e.intBinop(st, op, a, b, xt)
	case *StringV:
		b := y.(*StringV)
		return e.stringBinop(op, a, b)
	case *PtrV:
		b, ok := y.(*PtrV)
		if !ok {
			panic(fmt.Sprintf("binop %s: ptr vs %T", op, y))
		}
		eq := a.Obj == b.Obj && pathEq(a.Path, b.Path)
		switch op {
		case token.EQL:
			return e.ts.Bool(eq)
		case token.NEQ:
			return e.ts.Bool(!eq)
		}
	case *IfaceV:
		b, ok := y.(*IfaceV)
		if !ok {
			panic(fmt.Sprintf("binop %s: iface vs %T", op, y))
		}
		eq := e.ifaceEq(st, a, b)
		switch op {
		case token.EQL:
			return eq
		case token.NEQ:
			return e.ts.Not(eq)
		}
	case *SliceV, *MapV, *FuncV, *ChanV:
		// only comparison with nil is legal
		isNil := func(v Value) bool {
			switch z := v.(type) {
			case *SliceV:
				return z.Obj == 0
			case *MapV:
				return z.Obj == 0
			case *FuncV:
				return z.Fn == nil
			case *ChanV:
				return z.Obj == 0
			case *PtrV:
				return z.Obj == 0
			}
			return false
		}
		var eq bool
		if isNil(y) {
			eq = isNil(x)
		} else if isNil(x) {
			eq = isNil(y)
		} else if cx, ok := x.(*ChanV); ok {
			eq = cx.Obj == y.(*ChanV).Obj
		} else {
			unsupported("comparison of non-nil %T values", x)
		}
		switch op {
		case token.EQL:
			return e.ts.Bool(eq)
		case token.NEQ:
			return e.ts.Bool(!eq)
		}
	case *StructV:
		b := y.(*StructV)
		eq := e.valueEq(st, a, b)
		if op == token.NEQ {
			return e.ts.Not(eq)
		}
		return eq
	case *ArrayV:
		b := y.(*ArrayV)
		eq := e.valueEq(st, a, b)
		if op == token.NEQ {
			return e.ts.Not(eq)
		}
		return eq
	case *FloatV:
		b := y.(*FloatV)
		switch op {
		case token.ADD:
			return &FloatV{a.F + b.F}
		case token.SUB:
			return &FloatV{a.F - b.F}
		case token.MUL:
			return &FloatV{a.F * b.F}
		case token.QUO:
			return &FloatV{a.F / b.F}
		case token.EQL:
			return e.ts.Bool(a.F == b.F)
		case token.NEQ:
			return e.ts.Bool(a.F != b.F)
		case token.LSS:
			return e.ts.Bool(a.F < b.F)
		case token.LEQ:
			return e.ts.Bool(a.F <= b.F)
		case token.GTR:
			return e.ts.Bool(a.F > b.F)
		case token.GEQ:
			return e.ts.Bool(a.F >= b.F)
		}
	case *Poison:
		return a
	}
	unsupported("binop %s on %T", op, x)
	return nil
}

// valueEq builds the equality term of two values of the same comparable type.
func (e *Exec) valueEq(st *State, x, y Value) *term.Term {
	switch a := x.(type) {
	case *term.Term:
		return e.ts.Eq(a, y.(*term.Term))
	case *StringV:
		return e.stringBinop(token.EQL, a, y.(*StringV)).(*term.Term)
	case *StructV:
		b := y.(*StructV)
		acc := e.ts.True
		for i := range a.F {
			acc = e.ts.And(acc, e.valueEq(st, a.F[i], b.F[i]))
		}
		return acc
	case *ArrayV:
		b := y.(*ArrayV)
		acc := e.ts.True
		for i := range a.E {
			acc = e.ts.And(acc, e.valueEq(st, a.E[i], b.E[i]))
		}
		return acc
	case *PtrV:
		b := y.(*PtrV)
		return e.ts.Bool(a.Obj == b.Obj && pathEq(a.Path, b.Path))
	case *IfaceV:
		return e.ifaceEq(st, a, y.(*IfaceV))
	case *ChanV:
		return e.ts.Bool(a.Obj == y.(*ChanV).Obj)
	case *FloatV:
		return e.ts.Bool(a.F == y.(*FloatV).F)
	}
	unsupported("equality on %T", x)
	return nil
}

func (e *Exec) ifaceEq(st *State, a, b *IfaceV) *term.Term {
	if a.T == nil || b.T == nil {
		return e.ts.Bool(a.T == nil && b.T == nil)
	}
	if !types.Identical(a.T, b.T) {
		return e.ts.False
	}
	return e.valueEq(st, a.V, b.V)
}

func (e *Exec) stringBinop(op token.Token, a, b *StringV) Value {
	if a.B == nil && b.B == nil {
		switch op {
		case token.ADD:
			return &StringV{S: a.S + b.S}
		case token.EQL:
			return e.ts.Bool(a.S == b.S)
		case token.NEQ:
			return e.ts.Bool(a.S != b.S)
		case token.LSS:
			return e.ts.Bool(a.S < b.S)
		case token.LEQ:
			return e.ts.Bool(a.S <= b.S)
		case token.GTR:
			return e.ts.Bool(a.S > b.S)
		case token.GEQ:
			return e.ts.Bool(a.S >= b.S)
		}
	}
	switch op {
	case token.ADD:
		bs := append(append([]*term.Term(nil), e.strBytes(a)...), e.strBytes(b)...)
		return e.mkString(bs)
	case token.EQL, token.NEQ:
		var eq *term.Term
		if a.Len() != b.Len() {
			eq = e.ts.False
		} else {
			eq = e.ts.True
			for i := 0; i < a.Len(); i++ {
				eq = e.ts.And(eq, e.ts.Eq(e.strByte(a, i), e.strByte(b, i)))
			}
		}
		if op == token.NEQ {
			return e.ts.Not(eq)
		}
		return eq
	case token.LSS, token.LEQ, token.GTR, token.GEQ:
		if op == token.GTR || op == token.GEQ {
			a, b = b, a
			if op == token.GTR {
				op = token.LSS
			} else {
				op = token.LEQ
			}
		}
		// a < b (or <=) lexicographically
		n := a.Len()
		if b.Len() < n {
			n = b.Len()
		}
		var tail *term.Term
		if op == token.LSS {
			tail = e.ts.Bool(a.Len() < b.Len())
		} else {
			tail = e.ts.Bool(a.Len() <= b.Len())
		}
		acc := tail
		for i := n - 1; i >= 0; i-- {
			x, y := e.strByte(a, i), e.strByte(b, i)
			acc = e.ts.Ite(e.ts.Eq(x, y), acc, e.ts.Cmp(term.OpUlt, x, y))
		}
		return acc
	}
	unsupported("string binop %s", op)
	return nil
}

func (e *Exec) intBinop(st *State, op token.Token, a, b *term.Term, xt types.Type) Value {
	_, signed, _ := intWidth(xt)
	ts := e.ts
	if a.W == 0 {
		switch op {
		case token.EQL:
			return ts.Eq(a, b)
		case token.NEQ:
			return ts.Not(ts.Eq(a, b))
		case token.AND, token.LAND:
			return ts.And(a, b)
		case token.OR, token.LOR:
			return ts.Or(a, b)
		case token.XOR:
			return ts.Not(ts.Eq(a, b))
		}
		unsupported("bool binop %s", op)
	}
	switch op {
	case token.ADD:
		return ts.Bin(term.OpAdd, a, b)
	case token.SUB:
		return ts.Bin(term.OpSub, a, b)
	case token.MUL:
		return ts.Bin(term.OpMul, a, b)
	case token.QUO, token.REM:
		e.requireOrPanic(st, ts.Not(ts.Eq(b, ts.Const(b.W, 0))), "integer divide by zero")
		var o term.Op
		switch {
		case op == token.QUO && signed:
			o = term.OpSDiv
		case op == token.QUO:
			o = term.OpUDiv
		case signed:
			o = term.OpSRem
		default:
			o = term.OpURem
		}
		return ts.Bin(o, a, b)
	case token.AND:
		return ts.Bin(term.OpAnd, a, b)
	case token.OR:
		return ts.Bin(term.OpOr, a, b)
	case token.XOR:
		return ts.Bin(term.OpXor, a, b)
	case token.AND_NOT:
		return ts.Bin(term.OpAnd, a, ts.BvNot(b))
	case token.SHL, token.SHR:
		// shift count b has its own width; normalise to a.W with saturation
		cnt := e.shiftCount(a.W, b)
		switch {
		case op == token.SHL:
			return ts.Bin(term.OpShl, a, cnt)
		case signed:
			return ts.Bin(term.OpAShr, a, cnt)
		default:
			return ts.Bin(term.OpLShr, a, cnt)
		}
	case token.EQL:
		return ts.Eq(a, b)
	case token.NEQ:
		return ts.Not(ts.Eq(a, b))
	case token.LSS:
		if signed {
			return ts.Cmp(term.OpSlt, a, b)
		}
		return ts.Cmp(term.OpUlt, a, b)
	case token.LEQ:
		if signed {
			return ts.Cmp(term.OpSle, a, b)
		}
		return ts.Cmp(term.OpUle, a, b)
	case token.GTR:
		if signed {
			return ts.Cmp(term.OpSlt, b, a)
		}
		return ts.Cmp(term.OpUlt, b, a)
	case token.GEQ:
		if signed {
			return ts.Cmp(term.OpSle, b, a)
		}
		return ts.Cmp(term.OpUle, b, a)
	}
	unsupported("int binop %s", op)
	return nil
}

// shiftCount converts a shift count of any width to width w such that counts >= w stay >= w.
// (A negative signed count panics in Go; go/ssa inserts no check, the count is treated as unsigned
// here, which yields count >= w, i.e. the same result as a huge shift. Negative constant counts are
// rejected by the compiler.)
func (e *Exec) shiftCount(w uint8, b *term.Term) *term.Term {
	ts := e.ts
	if b.W == w {
		return b
	}
	if b.W < w {
		return ts.ZExt(b, w)
	}
	// b wider: saturate
	lim := ts.Const(b.W, uint64(w))
	low := ts.Extract(b, 0, w)
	return ts.Ite(ts.Cmp(term.OpUlt, b, lim), low, ts.Const(w, uint64(w)))
}

func (e *Exec) unop(st *State, in *ssa.UnOp, x Value) Value {
	switch in.Op {
	case token.MUL: // load
		p := e.ptr(st, x)
		v := e.load(st, p)
		if a, ok := v.(*ArrayV); ok && a.owner != 0 {
			a.owner = 0 // the value escapes into a register: no more in-place updates
		}
		return v
	case token.NOT:
		return e.ts.Not(x.(*term.Term))
	case token.SUB:
		switch a := x.(type) {
		case *term.Term:
			return e.ts.Neg(a)
		case *FloatV:
			return &FloatV{-a.F}
		}
	case token.XOR:
		return e.ts.BvNot(x.(*term.Term))
	case token.ARROW:
		ch := x.(*ChanV)
		if ch.Obj == 0 {
			unsupported("receive from nil channel")
		}
		cd := e.getObject(st, ch.Obj).V.(*ChanData)
		if !cd.Closed.IsTrue() {
			unsupported("blocking receive from a channel that is not definitely closed")
		}
		elem := in.X.Type().Underlying().(*types.Chan).Elem()
		if in.CommaOk {
			return &TupleV{E: []Value{e.zero(elem), e.ts.False}}
		}
		return e.zero(elem)
	}
	if p, ok := x.(*Poison); ok {
		return p
	}
	unsupported("unop %s on %T", in.Op, x)
	return nil
}

func (e *Exec) convert(st *State, x Value, from, to types.Type) Value {
	fu, tu := from.Underlying(), to.Underlying()
	if p, ok := x.(*Poison); ok {
		return p
	}
	// numeric
	if tw, _, ok := intWidth(tu); ok && tw > 0 {
		switch a := x.(type) {
		case *term.Term:
			fw, fsigned, _ := intWidth(fu)
			_ = fw
			switch {
			case a.W == tw:
				return a
			case a.W > tw:
				return e.ts.Extract(a, 0, tw)
			case fsigned:
				return e.ts.SExt(a, tw)
			default:
				return e.ts.ZExt(a, tw)
			}
		case *FloatV:
			return e.ts.Const(tw, uint64(int64(a.F)))
		case *PtrV:
			// uintptr(unsafe.Pointer(p))
			unsupported("pointer to integer conversion")
		}
	}
	if isFloat(tu) {
		switch a := x.(type) {
		case *FloatV:
			return a
		case *term.Term:
			if !a.IsConst() {
				unsupported("symbolic int to float conversion")
			}
			_, fsigned, _ := intWidth(fu)
			if fsigned {
				return &FloatV{float64(a.SignedVal())}
			}
			return &FloatV{float64(a.Val)}
		}
	}
	if isString(tu) {
		switch a := x.(type) {
		case *StringV:
			return a
		case *term.Term:
			// string(rune)
			_, fsigned, _ := intWidth(fu)
			var r *term.Term
			if a.W < 32 {
				if fsigned {
					r = e.ts.SExt(a, 32)
				} else {
					r = e.ts.ZExt(a, 32)
				}
			} else if a.W > 32 {
				// values outside int32 range map to U+FFFD
				lo := e.ts.Extract(a, 0, 32)
				var fits *term.Term
				if fsigned {
					fits = e.ts.Eq(e.ts.SExt(lo, a.W), a)
				} else {
					fits = e.ts.Cmp(term.OpUle, a, e.ts.Const(a.W, 0x7fffffff))
				}
				r = e.ts.Ite(fits, lo, e.ts.Const(32, 0xFFFD))
			} else {
				r = a
			}
			if r.IsConst() {
				return &StringV{S: string(rune(int32(r.Val)))}
			}
			n := int(e.concrete(st, e.runeLen(r)))
			return e.encodeRuneN(r, n)
		case *SliceV:
			elem := fu.(*types.Slice).Elem()
			w, _, _ := intWidth(elem)
			if w == 8 {
				bs := make([]*term.Term, a.Len)
				for i := 0; i < a.Len; i++ {
					bs[i] = e.sliceElem(st, a, i).(*term.Term)
				}
				return e.mkString(bs)
			}
			// []rune → string
			var out []*term.Term
			for i := 0; i < a.Len; i++ {
				r := e.sliceElem(st, a, i).(*term.Term)
				if r.IsConst() {
					for _, c := range []byte(string(rune(int32(r.Val)))) {
						out = append(out, e.ts.Const(8, uint64(c)))
					}
					continue
				}
				n := int(e.concrete(st, e.runeLen(r)))
				out = append(out, e.strBytes(e.encodeRuneN(r, n))...)
			}
			return e.mkString(out)
		}
	}
	if ts, ok := tu.(*types.Slice); ok {
		if sv, ok := x.(*StringV); ok {
			w, _, _ := intWidth(ts.Elem())
			if w == 8 {
				n := sv.Len()
				el := make([]Value, n)
				for i := 0; i < n; i++ {
					el[i] = e.strByte(sv, i)
				}
				id := e.newObject(st, &ArrayV{E: el})
				return &SliceV{Obj: id, Len: n, Cap: n}
			}
			// []rune(string)
			if sv.IsConcrete() {
				rs := []rune(sv.Concrete())
				el := make([]Value, len(rs))
				for i, r := range rs {
					el[i] = e.ts.Const(32, uint64(uint32(r)))
				}
				id := e.newObject(st, &ArrayV{E: el})
				return &SliceV{Obj: id, Len: len(rs), Cap: len(rs)}
			}
			unsupported("[]rune(symbolic string)")
		}
		if sv, ok := x.(*SliceV); ok {
			return sv
		}
	}
	switch tu.(type) {
	case *types.Pointer:
		if p, ok := x.(*PtrV); ok {
			return p
		}
	case *types.Basic:
		if tu.(*types.Basic).Kind() == types.UnsafePointer {
			if p, ok := x.(*PtrV); ok {
				return p
			}
		}
	}
	unsupported("conversion %s -> %s (%T)", from, to, x)
	return nil
}

// runeLen returns the UTF-8 length term (64-bit) of rune r (32-bit), with invalid runes → 3 (U+FFFD).
func (e *Exec) runeLen(r *term.Term) *term.Term {
	ts := e.ts
	c := func(v uint64) *term.Term { return ts.Const(32, v) }
	k := func(v uint64) *term.Term { return ts.Const(64, v) }
	neg := ts.Cmp(term.OpSlt, r, c(0))
	sur := ts.And(ts.Cmp(term.OpUle, c(0xD800), r), ts.Cmp(term.OpUle, r, c(0xDFFF)))
	big := ts.Cmp(term.OpUlt, c(utf8.MaxRune), r)
	invalid := ts.Or(neg, ts.Or(sur, big))
	return ts.Ite(invalid, k(3),
		ts.Ite(ts.Cmp(term.OpUlt, r, c(0x80)), k(1),
			ts.Ite(ts.Cmp(term.OpUlt, r, c(0x800)), k(2),
				ts.Ite(ts.Cmp(term.OpUlt, r, c(0x10000)), k(3), k(4)))))
}

// encodeRuneN encodes rune r assuming its encoding has n bytes (n from runeLen, concretised).
func (e *Exec) encodeRuneN(r *term.Term, n int) *StringV {
	ts := e.ts
	c := func(v uint64) *term.Term { return ts.Const(32, v) }
	b := func(t *term.Term) *term.Term { return ts.Extract(t, 0, 8) }
	shr := func(t *term.Term, k uint64) *term.Term { return ts.Bin(term.OpLShr, t, c(k)) }
	and := func(t *term.Term, m uint64) *term.Term { return ts.Bin(term.OpAnd, t, c(m)) }
	or := func(t *term.Term, m uint64) *term.Term { return ts.Bin(term.OpOr, t, c(m)) }
	switch n {
	case 1:
		return e.mkString([]*term.Term{b(r)})
	case 2:
		return e.mkString([]*term.Term{b(or(shr(r, 6), 0xC0)), b(or(and(r, 0x3F), 0x80))})
	case 3:
		// invalid runes (negative, surrogates, too large) encode as U+FFFD which also has 3 bytes
		neg := ts.Cmp(term.OpSlt, r, c(0))
		sur := ts.And(ts.Cmp(term.OpUle, c(0xD800), r), ts.Cmp(term.OpUle, r, c(0xDFFF)))
		big := ts.Cmp(term.OpUlt, c(utf8.MaxRune), r)
		invalid := ts.Or(neg, ts.Or(sur, big))
		rr := ts.Ite(invalid, c(0xFFFD), r)
		return e.mkString([]*term.Term{b(or(shr(rr, 12), 0xE0)), b(or(and(shr(rr, 6), 0x3F), 0x80)), b(or(and(rr, 0x3F), 0x80))})
	case 4:
		return e.mkString([]*term.Term{b(or(shr(r, 18), 0xF0)), b(or(and(shr(r, 12), 0x3F), 0x80)), b(or(and(shr(r, 6), 0x3F), 0x80)), b(or(and(r, 0x3F), 0x80))})
	}
	panic("encodeRuneN: bad length")
}

// sliceElem reads element i (concrete) of a slice.
func (e *Exec) sliceElem(st *State, s *SliceV, i int) Value {
	o := e.getObject(st, s.Obj)
	arr := e.loadPath(st, o.V, s.Path).(*ArrayV)
	return arr.E[s.Off+i]
}
