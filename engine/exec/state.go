package exec

import (
	"fmt"

	"golang.org/x/tools/go/ssa"

	"symgo/term"
)

type PCNode struct {
	T    *term.Term
	Prev *PCNode
	N    int
}

type pause struct {
	depth int             // len(frames) of the frame owning the If
	block *ssa.BasicBlock // join block; nil = function exit (pause when len(frames) == depth-1)
	limit int64           // instruction budget
}

type deferred struct {
	fn   Value // *FuncV or builtin marker
	args []Value
	call *ssa.Defer
}

const (
	retNormal = iota
	retDefer  // return into RunDefers / panic unwinding: result discarded, pc not advanced
)

type Frame struct {
	fn      *ssa.Function
	info    *fnInfo
	block   *ssa.BasicBlock
	pc      int
	locals  []Value
	defers  []*deferred
	visits  []int32
	retMode int
	cont    interface{} // continuation run when this frame returns (instead of the default delivery)
	// panic bookkeeping
	recovered  bool
	panicOwner int // 1 + index of the frame whose deferred call this frame is, during unwinding
}

type State struct {
	id      int
	epoch   int
	frames  []*Frame
	heap    map[int]*Object
	pc      *PCNode
	witness *term.Model
	conc    map[int]uint64 // concretised terms (term id → value)
	pinned  map[int]uint64 // variables whose value is fixed by an equality in the path condition (var term id → value)
	pinName map[string]uint64
	pinModel *term.Model
	nondet  []*term.Term   // nondet variables in creation order
	pauses  []pause
	instrs  int64
	notes   []string

	choice      *uint64 // pending result of a verifChoice call (set when the state was forked for it)
	pausedLevel int
	unverified  bool // forked without a feasibility query: witness invalid until ensureVerified
	panicking   bool
	panicVal    Value
	panicMsg    string
	outcome     string // terminal outcome once finished
	detail      string
	retval      Value
	isInit      bool // package initialiser state (writes go to the base heap)
}

func (st *State) top() *Frame { return st.frames[len(st.frames)-1] }

func (f *Frame) clone() *Frame {
	nf := *f
	nf.locals = append([]Value(nil), f.locals...)
	nf.visits = append([]int32(nil), f.visits...)
	if f.defers != nil {
		nf.defers = append([]*deferred(nil), f.defers...)
	}
	return &nf
}

func (e *Exec) fork(st *State) *State {
	e.nextState++
	ns := *st
	ns.id = e.nextState
	e.nextEpoch++
	ns.epoch = e.nextEpoch
	e.nextEpoch++
	st.epoch = e.nextEpoch // the parent loses in-place rights over shared arrays too
	ns.frames = make([]*Frame, len(st.frames))
	for i, f := range st.frames {
		ns.frames[i] = f.clone()
	}
	ns.heap = make(map[int]*Object, len(st.heap)+8)
	for k, v := range st.heap {
		ns.heap[k] = v
	}
	if st.conc != nil {
		ns.conc = make(map[int]uint64, len(st.conc))
		for k, v := range st.conc {
			ns.conc[k] = v
		}
	}
	if st.pinned != nil {
		ns.pinned = make(map[int]uint64, len(st.pinned))
		for k, v := range st.pinned {
			ns.pinned[k] = v
		}
		ns.pinName = make(map[string]uint64, len(st.pinName))
		for k, v := range st.pinName {
			ns.pinName[k] = v
		}
	}
	ns.nondet = append([]*term.Term(nil), st.nondet...)
	ns.pauses = append([]pause(nil), st.pauses...)
	ns.notes = append([]string(nil), st.notes...)
	e.stats.Forks++
	return &ns
}

func (st *State) addPC(t *term.Term) {
	if t.IsTrue() {
		return
	}
	if t.Op == term.OpBAnd {
		st.addPC(t.A)
		st.addPC(t.B)
		return
	}
	n := 1
	if st.pc != nil {
		n = st.pc.N + 1
	}
	st.pc = &PCNode{T: t, Prev: st.pc, N: n}
	st.notePin(t)
}

// notePin records variables pinned to a constant by a conjunct of the form (= ext*(var) const).
func (st *State) notePin(t *term.Term) {
	if t.Op != term.OpEq {
		return
	}
	x, c := t.A, t.B
	if x.IsConst() {
		x, c = c, x
	}
	if !c.IsConst() {
		return
	}
	val := c.Val
	for x.Op == term.OpZExt || x.Op == term.OpSExt {
		inner := x.A
		// the constant must be representable in the narrower operand, otherwise the equality is just false
		m := uint64(1)<<inner.W - 1
		if x.Op == term.OpZExt && val&^m != 0 {
			return
		}
		if x.Op == term.OpSExt {
			sh := 64 - uint(inner.W)
			full := uint64(int64((val&m)<<sh) >> sh)
			if x.W < 64 {
				full &= uint64(1)<<x.W - 1
			}
			if full != val {
				return
			}
		}
		val &= m
		x = inner
	}
	if x.Op != term.OpVar || x.W == 0 {
		return
	}
	if st.pinned == nil {
		st.pinned = map[int]uint64{}
		st.pinName = map[string]uint64{}
	}
	st.pinned[x.ID] = val
	st.pinName[x.Name] = val
	st.pinModel = nil
}

// pcKnown reports whether t (or its negation) is literally a conjunct of the path condition.
func (st *State) pcKnown(t, nt *term.Term) (val bool, known bool) {
	for n := st.pc; n != nil; n = n.Prev {
		if n.T == t {
			return true, true
		}
		if n.T == nt {
			return false, true
		}
	}
	return false, false
}

func (st *State) pcTerms() []*term.Term {
	var out []*term.Term
	for n := st.pc; n != nil; n = n.Prev {
		out = append(out, n.T)
	}
	return out
}

// ---------------------------------------------------------------------------
// heap

func (e *Exec) newObject(st *State, v Value) int {
	e.nextObj++
	id := e.nextObj
	if a, ok := v.(*ArrayV); ok {
		a.owner = st.epoch
	}
	o := &Object{V: v, epoch: st.epoch}
	if st.isInit {
		e.base[id] = o
	} else {
		st.heap[id] = o
	}
	return id
}

func (e *Exec) getObject(st *State, id int) *Object {
	if !st.isInit {
		if o, ok := st.heap[id]; ok {
			return o
		}
	}
	if o, ok := e.base[id]; ok {
		return o
	}
	panic(fmt.Sprintf("dangling object id %d", id))
}

// writableObject returns an object the state may mutate.
func (e *Exec) writableObject(st *State, id int) *Object {
	if st.isInit {
		return e.base[id]
	}
	o, ok := st.heap[id]
	if ok && o.epoch == st.epoch {
		return o
	}
	if !ok {
		o = e.base[id]
		if o == nil {
			panic(fmt.Sprintf("dangling object id %d", id))
		}
	}
	no := &Object{V: o.V, epoch: st.epoch}
	st.heap[id] = no
	return no
}

type execPanic struct {
	kind string // "gopanic" (Go-level panic), "unsupported", "bound"
	msg  string
}

type concretizeReq struct{ t *term.Term }

func unsupported(format string, args ...interface{}) {
	panic(&execPanic{kind: "unsupported", msg: fmt.Sprintf(format, args...)})
}

// load reads the value at ptr.
func (e *Exec) load(st *State, p *PtrV) Value {
	if p.Obj == 0 {
		e.goPanic(st, "nil pointer dereference")
	}
	o := e.getObject(st, p.Obj)
	return e.loadPath(st, o.V, p.Path)
}

func (e *Exec) loadPath(st *State, v Value, path []PathElem) Value {
	for i, pe := range path {
		switch x := v.(type) {
		case *StructV:
			v = x.F[pe.I]
		case *ArrayV:
			if pe.Sym != nil {
				if cv, ok := st.conc[pe.Sym.ID]; ok && int(cv) < len(x.E) {
					v = x.E[int(cv)]
					continue
				}
				return e.loadSym(st, x, pe.Sym, path[i+1:])
			}
			v = x.E[pe.I]
		case *Poison:
			return x
		default:
			panic(fmt.Sprintf("loadPath: cannot index %T", v))
		}
	}
	return v
}

// loadSym reads arr[sym].rest as an ite chain; sym is known to be in range.
func (e *Exec) loadSym(st *State, arr *ArrayV, sym *term.Term, rest []PathElem) Value {
	n := len(arr.E)
	if n == 0 {
		panic("loadSym on empty array")
	}
	// constant scalar table fast path
	if len(rest) == 0 && n > 16 {
		if tb := e.tableFor(arr); tb != nil {
			return e.ts.Select(tb, sym)
		}
	}
	acc := e.loadPath(st, arr.E[n-1], rest)
	for i := n - 2; i >= 0; i-- {
		vi := e.loadPath(st, arr.E[i], rest)
		if vi == acc {
			continue
		}
		m, ok := e.mergeValue(e.ts.Eq(sym, e.ts.Const(64, uint64(i))), vi, acc)
		if !ok {
			panic(&concretizeReq{sym})
		}
		acc = m
	}
	return acc
}

// tableFor returns a constant table for an all-constant scalar array (cached by identity).
func (e *Exec) tableFor(arr *ArrayV) *term.Table {
	if tb, ok := e.tables[arr]; ok {
		return tb
	}
	var w uint8
	vals := make([]uint64, len(arr.E))
	for i, x := range arr.E {
		t, ok := x.(*term.Term)
		if !ok || !t.IsConst() || t.W == 0 {
			e.tables[arr] = nil
			return nil
		}
		w = t.W
		vals[i] = t.Val
	}
	tb := e.ts.NewTable("", vals, w)
	e.tables[arr] = tb
	return tb
}

func (e *Exec) store(st *State, p *PtrV, v Value) {
	if p.Obj == 0 {
		e.goPanic(st, "nil pointer dereference")
	}
	o := e.writableObject(st, p.Obj)
	if len(p.Path) == 0 {
		if a, ok := v.(*ArrayV); ok {
			// storing a whole array value: it may be shared with a local, so drop in-place rights
			v = &ArrayV{E: a.E}
		}
		o.V = v
		return
	}
	o.V = e.storePath(st, o.V, p.Path, v, true)
}

// storePath returns cur with the location at path replaced by v. top says whether cur is the
// object's top-level value (only then in-place mutation of owned arrays is allowed).
func (e *Exec) storePath(st *State, cur Value, path []PathElem, v Value, top bool) Value {
	if len(path) == 0 {
		return v
	}
	pe := path[0]
	switch x := cur.(type) {
	case *StructV:
		nf := make([]Value, len(x.F))
		copy(nf, x.F)
		nf[pe.I] = e.storePath(st, x.F[pe.I], path[1:], v, false)
		return &StructV{F: nf}
	case *ArrayV:
		if pe.Sym != nil {
			if cv, ok := st.conc[pe.Sym.ID]; ok && int(cv) < len(x.E) {
				pe = PathElem{I: int(cv)}
			}
		}
		if pe.Sym != nil {
			ne := make([]Value, len(x.E))
			for i := range x.E {
				upd := e.storePath(st, x.E[i], path[1:], v, false)
				m, ok := e.mergeValue(e.ts.Eq(pe.Sym, e.ts.Const(64, uint64(i))), upd, x.E[i])
				if !ok {
					panic(&concretizeReq{pe.Sym})
				}
				ne[i] = m
			}
			return &ArrayV{E: ne, owner: ownerIf(top, st.epoch)}
		}
		nv := e.storePath(st, x.E[pe.I], path[1:], v, false)
		if top && x.owner == st.epoch {
			x.E[pe.I] = nv
			delete(e.tables, x)
			return x
		}
		ne := make([]Value, len(x.E))
		copy(ne, x.E)
		ne[pe.I] = nv
		return &ArrayV{E: ne, owner: ownerIf(top, st.epoch)}
	case *Poison:
		return x
	}
	panic(fmt.Sprintf("storePath: cannot index %T", cur))
}

func ownerIf(top bool, epoch int) int {
	if top {
		return epoch
	}
	return 0
}

// mergeValue builds ite(c, a, b) structurally; ok=false when shapes differ.
func (e *Exec) mergeValue(c *term.Term, a, b Value) (Value, bool) {
	if a == b {
		return a, true
	}
	if c.IsTrue() {
		return a, true
	}
	if c.IsFalse() {
		return b, true
	}
	switch x := a.(type) {
	case *term.Term:
		y, ok := b.(*term.Term)
		if !ok || x.W != y.W {
			return nil, false
		}
		return e.ts.Ite(c, x, y), true
	case *StructV:
		y, ok := b.(*StructV)
		if !ok || len(x.F) != len(y.F) {
			return nil, false
		}
		nf := make([]Value, len(x.F))
		for i := range x.F {
			m, ok := e.mergeValue(c, x.F[i], y.F[i])
			if !ok {
				return nil, false
			}
			nf[i] = m
		}
		return &StructV{F: nf}, true
	case *ArrayV:
		y, ok := b.(*ArrayV)
		if !ok || len(x.E) != len(y.E) {
			return nil, false
		}
		ne := make([]Value, len(x.E))
		for i := range x.E {
			m, ok := e.mergeValue(c, x.E[i], y.E[i])
			if !ok {
				return nil, false
			}
			ne[i] = m
		}
		return &ArrayV{E: ne}, true
	case *TupleV:
		y, ok := b.(*TupleV)
		if !ok || len(x.E) != len(y.E) {
			return nil, false
		}
		ne := make([]Value, len(x.E))
		for i := range x.E {
			m, ok := e.mergeValue(c, x.E[i], y.E[i])
			if !ok {
				return nil, false
			}
			ne[i] = m
		}
		return &TupleV{E: ne}, true
	case *StringV:
		y, ok := b.(*StringV)
		if !ok || x.Len() != y.Len() {
			return nil, false
		}
		if x.B == nil && y.B == nil && x.S == y.S {
			return x, true
		}
		n := x.Len()
		bs := make([]*term.Term, n)
		for i := 0; i < n; i++ {
			bs[i] = e.ts.Ite(c, e.strByte(x, i), e.strByte(y, i))
		}
		return e.mkString(bs), true
	case *PtrV:
		y, ok := b.(*PtrV)
		if ok && x.Obj == y.Obj && pathEq(x.Path, y.Path) {
			return x, true
		}
		return nil, false
	case *SliceV:
		y, ok := b.(*SliceV)
		if ok && x.Obj == y.Obj && x.Off == y.Off && x.Len == y.Len && x.Cap == y.Cap && pathEq(x.Path, y.Path) {
			return x, true
		}
		return nil, false
	case *IfaceV:
		y, ok := b.(*IfaceV)
		if !ok {
			return nil, false
		}
		if x.T == nil && y.T == nil {
			return x, true
		}
		if x.T == nil || y.T == nil || x.T != y.T {
			return nil, false
		}
		m, ok := e.mergeValue(c, x.V, y.V)
		if !ok {
			return nil, false
		}
		return &IfaceV{T: x.T, V: m}, true
	case *FuncV:
		y, ok := b.(*FuncV)
		if !ok || x.Fn != y.Fn || len(x.Bind) != len(y.Bind) {
			return nil, false
		}
		for i := range x.Bind {
			if x.Bind[i] != y.Bind[i] {
				m, ok := e.mergeValue(c, x.Bind[i], y.Bind[i])
				if !ok {
					return nil, false
				}
				_ = m
				return nil, false
			}
		}
		return x, true
	case *MapV:
		y, ok := b.(*MapV)
		if ok && x.Obj == y.Obj {
			return x, true
		}
		return nil, false
	case *ChanV:
		y, ok := b.(*ChanV)
		if ok && x.Obj == y.Obj {
			return x, true
		}
		return nil, false
	case *IterV:
		y, ok := b.(*IterV)
		if ok && x.Obj == y.Obj {
			return x, true
		}
		return nil, false
	case *FloatV:
		y, ok := b.(*FloatV)
		if ok && x.F == y.F {
			return x, true
		}
		return nil, false
	case *MapData:
		y, ok := b.(*MapData)
		if !ok || len(x.Keys) != len(y.Keys) {
			return nil, false
		}
		nv := make([]Value, len(x.Vals))
		var np []*term.Term
		if x.Present != nil || y.Present != nil {
			np = make([]*term.Term, len(x.Keys))
		}
		for i := range x.Keys {
			if x.Keys[i] != y.Keys[i] && !e.sameConcrete(x.Keys[i], y.Keys[i]) {
				return nil, false
			}
			m, ok := e.mergeValue(c, x.Vals[i], y.Vals[i])
			if !ok {
				return nil, false
			}
			nv[i] = m
			if np != nil {
				px, py := e.ts.True, e.ts.True
				if x.Present != nil {
					px = x.Present[i]
				}
				if y.Present != nil {
					py = y.Present[i]
				}
				np[i] = e.ts.Ite(c, px, py)
			}
		}
		return &MapData{Keys: x.Keys, Vals: nv, Present: np}, true
	case *IterData:
		y, ok := b.(*IterData)
		if ok && x.Pos == y.Pos && x.Map == y.Map && x.IsStr == y.IsStr && len(x.Keys) == len(y.Keys) && x.Str == y.Str {
			return x, true
		}
		return nil, false
	case *ChanData:
		y, ok := b.(*ChanData)
		if !ok {
			return nil, false
		}
		return &ChanData{Closed: e.ts.Ite(c, x.Closed, y.Closed)}, true
	case *Poison:
		return x, true
	}
	return nil, false
}

// sameConcrete reports whether two values are identical concrete scalars/strings (or the same object).
func (e *Exec) sameConcrete(a, b Value) bool {
	if a == b {
		return true
	}
	switch x := a.(type) {
	case *term.Term:
		return false // hash-consed: identical terms are pointer-equal
	case *StringV:
		y, ok := b.(*StringV)
		return ok && x.IsConcrete() && y.IsConcrete() && x.Concrete() == y.Concrete()
	case *PtrV:
		y, ok := b.(*PtrV)
		return ok && x.Obj == y.Obj && pathEq(x.Path, y.Path)
	case *StructV:
		y, ok := b.(*StructV)
		if !ok || len(x.F) != len(y.F) {
			return false
		}
		for i := range x.F {
			if !e.sameConcrete(x.F[i], y.F[i]) {
				return false
			}
		}
		return true
	case *IfaceV:
		y, ok := b.(*IfaceV)
		if !ok {
			return false
		}
		if x.T == nil || y.T == nil {
			return x.T == nil && y.T == nil
		}
		return x.T == y.T && e.sameConcrete(x.V, y.V)
	}
	return false
}
