package exec

import (
	"fmt"
	"go/token"
	"go/types"

	"golang.org/x/tools/go/ssa"

	"symgo/smt"
	"symgo/term"
)

// step executes one instruction; returns true if the state paused.
func (e *Exec) step(st *State, f *Frame, instr ssa.Instruction) bool {
	switch in := instr.(type) {
	case *ssa.DebugRef:
		f.pc++
	case *ssa.Alloc:
		elem := in.Type().(*types.Pointer).Elem()
		id := e.newObject(st, e.zero(elem))
		e.set(f, in, &PtrV{Obj: id})
		f.pc++
	case *ssa.BinOp:
		x, y := e.get(st, f, in.X), e.get(st, f, in.Y)
		e.set(f, in, e.binop(st, in.Op, x, y, in.X.Type()))
		f.pc++
	case *ssa.UnOp:
		x := e.get(st, f, in.X)
		e.set(f, in, e.unop(st, in, x))
		f.pc++
	case *ssa.ChangeType:
		e.set(f, in, e.get(st, f, in.X))
		f.pc++
	case *ssa.ChangeInterface:
		e.set(f, in, e.get(st, f, in.X))
		f.pc++
	case *ssa.Convert:
		e.set(f, in, e.convert(st, e.get(st, f, in.X), in.X.Type(), in.Type()))
		f.pc++
	case *ssa.MultiConvert:
		e.set(f, in, e.convert(st, e.get(st, f, in.X), in.X.Type(), in.Type()))
		f.pc++
	case *ssa.MakeInterface:
		e.set(f, in, &IfaceV{T: in.X.Type(), V: e.get(st, f, in.X)})
		f.pc++
	case *ssa.MakeClosure:
		fn := in.Fn.(*ssa.Function)
		bind := make([]Value, len(in.Bindings))
		for i, b := range in.Bindings {
			bind[i] = e.get(st, f, b)
		}
		e.set(f, in, &FuncV{Fn: fn, Bind: bind})
		f.pc++
	case *ssa.MakeMap:
		id := e.newObject(st, &MapData{})
		e.set(f, in, &MapV{Obj: id})
		f.pc++
	case *ssa.MakeChan:
		id := e.newObject(st, &ChanData{Closed: e.ts.False})
		e.set(f, in, &ChanV{Obj: id})
		f.pc++
	case *ssa.MakeSlice:
		ln := e.concreteInt(st, e.get(st, f, in.Len))
		cp := e.concreteInt(st, e.get(st, f, in.Cap))
		if ln < 0 || cp < ln {
			e.goPanic(st, "makeslice: len out of range")
		}
		if cp > 1<<24 {
			unsupported("makeslice of %d elements", cp)
		}
		elem := in.Type().Underlying().(*types.Slice).Elem()
		e.set(f, in, e.makeSlice(st, elem, ln, cp))
		f.pc++
	case *ssa.Field:
		x := e.get(st, f, in.X)
		switch sv := x.(type) {
		case *StructV:
			e.set(f, in, sv.F[in.Field])
		case *Poison:
			e.set(f, in, sv)
		default:
			panic(fmt.Sprintf("Field of %T", x))
		}
		f.pc++
	case *ssa.FieldAddr:
		p := e.ptr(st, e.get(st, f, in.X))
		if p.Obj == 0 {
			e.goPanic(st, "nil pointer dereference (field address)")
		}
		e.set(f, in, &PtrV{Obj: p.Obj, Path: extendPath(p.Path, PathElem{I: in.Field})})
		f.pc++
	case *ssa.Index:
		x := e.get(st, f, in.X)
		idx := e.get(st, f, in.Index).(*term.Term)
		switch xv := x.(type) {
		case *ArrayV:
			i := e.indexCheck(st, idx, in.Index.Type(), len(xv.E))
			if i.Sym != nil {
				e.set(f, in, e.loadSym(st, xv, i.Sym, nil))
			} else {
				e.set(f, in, xv.E[i.I])
			}
		case *StringV:
			e.set(f, in, e.stringIndex(st, xv, idx, in.Index.Type()))
		default:
			panic(fmt.Sprintf("Index of %T", x))
		}
		f.pc++
	case *ssa.IndexAddr:
		x := e.get(st, f, in.X)
		idx := e.get(st, f, in.Index).(*term.Term)
		switch xv := x.(type) {
		case *SliceV:
			i := e.indexCheck(st, idx, in.Index.Type(), xv.Len)
			if i.Sym != nil {
				if xv.Off != 0 {
					i.Sym = e.ts.Add(i.Sym, e.ts.Const(64, uint64(xv.Off)))
				}
			} else {
				i.I += xv.Off
			}
			e.set(f, in, &PtrV{Obj: xv.Obj, Path: extendPath(xv.Path, i)})
		case *PtrV:
			if xv.Obj == 0 {
				e.goPanic(st, "nil pointer dereference (index address)")
			}
			n := int(in.X.Type().Underlying().(*types.Pointer).Elem().Underlying().(*types.Array).Len())
			i := e.indexCheck(st, idx, in.Index.Type(), n)
			e.set(f, in, &PtrV{Obj: xv.Obj, Path: extendPath(xv.Path, i)})
		default:
			panic(fmt.Sprintf("IndexAddr of %T", x))
		}
		f.pc++
	case *ssa.Lookup:
		x := e.get(st, f, in.X)
		switch xv := x.(type) {
		case *StringV:
			idx := e.get(st, f, in.Index).(*term.Term)
			e.set(f, in, e.stringIndex(st, xv, idx, in.Index.Type()))
		case *MapV:
			key := e.get(st, f, in.Index)
			mt := in.X.Type().Underlying().(*types.Map)
			v, ok := e.mapLookup(st, xv, key, mt.Elem())
			if in.CommaOk {
				e.set(f, in, &TupleV{E: []Value{v, ok}})
			} else {
				e.set(f, in, v)
			}
		default:
			panic(fmt.Sprintf("Lookup of %T", x))
		}
		f.pc++
	case *ssa.MapUpdate:
		m := e.get(st, f, in.Map).(*MapV)
		e.mapUpdate(st, m, e.get(st, f, in.Key), e.get(st, f, in.Value))
		f.pc++
	case *ssa.Extract:
		t := e.get(st, f, in.Tuple)
		switch tv := t.(type) {
		case *TupleV:
			e.set(f, in, tv.E[in.Index])
		case *Poison:
			e.set(f, in, tv)
		default:
			panic(fmt.Sprintf("Extract of %T", t))
		}
		f.pc++
	case *ssa.Slice:
		e.set(f, in, e.sliceOp(st, f, in))
		f.pc++
	case *ssa.SliceToArrayPointer:
		sv := e.get(st, f, in.X).(*SliceV)
		n := int(in.Type().Underlying().(*types.Pointer).Elem().Underlying().(*types.Array).Len())
		if sv.Len < n {
			e.goPanic(st, "slice to array pointer: length too short")
		}
		if sv.Obj == 0 {
			e.set(f, in, nilPtr)
		} else if sv.Off == 0 {
			arr := e.loadPath(st, e.getObject(st, sv.Obj).V, sv.Path).(*ArrayV)
			if len(arr.E) != n {
				unsupported("SliceToArrayPointer with differing backing size")
			}
			e.set(f, in, &PtrV{Obj: sv.Obj, Path: sv.Path})
		} else {
			unsupported("SliceToArrayPointer with offset")
		}
		f.pc++
	case *ssa.Store:
		p := e.ptr(st, e.get(st, f, in.Addr))
		e.store(st, p, e.get(st, f, in.Val))
		f.pc++
	case *ssa.TypeAssert:
		e.set(f, in, e.typeAssert(st, in, e.get(st, f, in.X)))
		f.pc++
	case *ssa.Range:
		x := e.get(st, f, in.X)
		var it *IterData
		switch xv := x.(type) {
		case *StringV:
			it = &IterData{Str: xv, IsStr: true}
		case *MapV:
			it = &IterData{Map: xv.Obj}
			if xv.Obj != 0 {
				md := e.getObject(st, xv.Obj).V.(*MapData)
				for i := range md.Keys {
					if e.entryPresent(st, md, i) {
						it.Keys = append(it.Keys, md.Keys[i])
					}
				}
			}
		default:
			panic(fmt.Sprintf("Range over %T", x))
		}
		e.set(f, in, &IterV{Obj: e.newObject(st, it)})
		f.pc++
	case *ssa.Next:
		return e.next(st, f, in)
	case *ssa.Phi:
		panic("phi executed directly")
	case *ssa.Jump:
		return e.jump(st, f, f.block.Succs[0])
	case *ssa.If:
		c := e.get(st, f, in.Cond).(*term.Term)
		if c.IsConst() {
			return e.jump(st, f, f.block.Succs[1-int(c.Val)])
		}
		if v, ok := st.conc[c.ID]; ok {
			return e.jump(st, f, f.block.Succs[1-int(v)])
		}
		if v, ok := e.pinnedConst(st, c); ok {
			return e.jump(st, f, f.block.Succs[1-int(v&1)])
		}
		st.instrs-- // the instruction is re-counted when the branch is taken
		panic(&branchReq{cond: c})
	case *ssa.Return:
		return e.doReturn(st, f, in)
	case *ssa.RunDefers:
		if len(f.defers) > 0 {
			d := f.defers[len(f.defers)-1]
			f.defers = f.defers[:len(f.defers)-1]
			e.callDeferred(st, f, d, false)
			return false
		}
		f.pc++
	case *ssa.Defer:
		d := &deferred{call: in}
		if in.Call.IsInvoke() {
			recv := e.get(st, f, in.Call.Value)
			fn, r := e.resolveInvoke(st, recv, in.Call.Method)
			d.fn = &FuncV{Fn: fn}
			d.args = append(d.args, r)
		} else {
			d.fn = e.get(st, f, in.Call.Value)
			if b, ok := in.Call.Value.(*ssa.Builtin); ok {
				d.fn = b
			}
		}
		for _, a := range in.Call.Args {
			d.args = append(d.args, e.get(st, f, a))
		}
		f.defers = append(f.defers, d)
		f.pc++
	case *ssa.Panic:
		v := e.get(st, f, in.X)
		st.panicking = true
		st.panicVal = v
		st.panicMsg = e.describePanic(st, v)
		f.pc++
	case *ssa.Call:
		return e.call(st, f, in)
	case *ssa.Go:
		unsupported("go statement in %s", f.fn)
	case *ssa.Send:
		unsupported("channel send in %s", f.fn)
	case *ssa.Select:
		e.set(f, in, e.selectOp(st, f, in))
		f.pc++
	default:
		unsupported("instruction %T in %s", instr, f.fn)
	}
	return false
}

func (e *Exec) ptr(st *State, v Value) *PtrV {
	switch p := v.(type) {
	case *PtrV:
		return p
	case *Poison:
		unsupported("dereference of poison value (%s)", p.Why)
	}
	panic(fmt.Sprintf("expected pointer, got %T", v))
}

func (e *Exec) describePanic(st *State, v Value) string {
	if iv, ok := v.(*IfaceV); ok && iv.T != nil {
		switch x := iv.V.(type) {
		case *StringV:
			if x.IsConcrete() {
				return x.Concrete()
			}
			return "<symbolic string>"
		case *term.Term:
			return "panic(" + x.String() + ")"
		}
		return "panic value of type " + iv.T.String()
	}
	return "panic(nil)"
}

// indexCheck validates idx against n (forking a panic path when out of range is feasible).
func (e *Exec) indexCheck(st *State, idx *term.Term, it types.Type, n int) PathElem {
	w, signed, _ := intWidth(it)
	ix := idx
	if w < 64 {
		if signed {
			ix = e.ts.SExt(idx, 64)
		} else {
			ix = e.ts.ZExt(idx, 64)
		}
	}
	if ix.IsConst() {
		v := int64(ix.Val)
		if v < 0 || v >= int64(n) {
			e.goPanic(st, fmt.Sprintf("index out of range [%d] with length %d", v, n))
		}
		return PathElem{I: int(v)}
	}
	if v, ok := st.conc[ix.ID]; ok {
		if int64(v) < 0 || int64(v) >= int64(n) {
			e.goPanic(st, fmt.Sprintf("index out of range [%d] with length %d", int64(v), n))
		}
		return PathElem{I: int(v)}
	}
	if v, ok := e.pinnedConst(st, ix); ok {
		if int64(v) < 0 || int64(v) >= int64(n) {
			e.goPanic(st, fmt.Sprintf("index out of range [%d] with length %d", int64(v), n))
		}
		return PathElem{I: int(v)}
	}
	inRange := e.ts.Cmp(term.OpUlt, ix, e.ts.Const(64, uint64(n)))
	e.requireOrPanic(st, inRange, fmt.Sprintf("index out of range with length %d", n))
	if n == 1 {
		return PathElem{I: 0}
	}
	return PathElem{Sym: ix}
}

// requireOrPanic makes cond hold on the current path; if ¬cond is feasible a branch event is raised
// through a synthetic fork: the violating side becomes a Go panic path.
func (e *Exec) requireOrPanic(st *State, cond *term.Term, msg string) {
	if cond.IsTrue() {
		return
	}
	if cond.IsFalse() {
		e.goPanic(st, msg)
	}
	if st.isInit {
		panic(&execPanic{kind: "internal", msg: "symbolic check in init"})
	}
	e.needVerified(st)
	if v, known := st.pcKnown(cond, e.ts.Not(cond)); known && v {
		return
	}
	if v, ok := e.pinnedConst(st, cond); ok {
		if v != 0 {
			return
		}
		e.goPanic(st, msg)
	}
	key := feasKey{st.pc, cond.ID}
	res, ok := e.feasCache[key]
	var model *term.Model
	if !ok {
		res, model = e.checkW(st, "implicit", e.ts.Not(cond))
		e.feasCache[key] = res
	} else if res == smt.Sat {
		res, model = e.checkW(st, "implicit", e.ts.Not(cond))
	}
	switch res {
	case smt.Unsat:
		return
	case smt.Unknown:
		e.CapsHit["unknown-branch: solver unknown on implicit check ("+msg+")"]++
		return
	}
	// ¬cond feasible: spawn the panic path as an independent finished path
	ps := e.fork(st)
	ps.witness = model
	ps.addPC(e.ts.Not(cond))
	ps.pauses = nil
	e.pendingPanics = append(e.pendingPanics, pendingPanic{ps, msg})
	// the current state continues with cond; it needs a witness satisfying cond
	st.addPC(cond)
	if e.ts.Eval(cond, st.witness) == 0 {
		r2, m2 := e.checkW(st, "implicit-cont", e.ts.True)
		if r2 == smt.Sat {
			st.witness = m2
		} else if r2 == smt.Unsat {
			panic(&execPanic{kind: "infeasible", msg: "always panics: " + msg})
		} else {
			panic(&execPanic{kind: "internal", msg: "solver unknown after implicit check"})
		}
	}
}

type pendingPanic struct {
	st  *State
	msg string
}

// flushPanics runs the deferred functions of spawned panic paths and records their outcome.
func (e *Exec) flushPanics() {
	for len(e.pendingPanics) > 0 {
		pp := e.pendingPanics[len(e.pendingPanics)-1]
		e.pendingPanics = e.pendingPanics[:len(e.pendingPanics)-1]
		ps := pp.st
		ps.panicking = true
		ps.panicMsg = pp.msg
		ps.panicVal = &IfaceV{T: types.Typ[types.String], V: &StringV{S: pp.msg}}
		rest := e.explore(ps)
		for _, r := range rest {
			e.finish(r, "internal", "paused panic path")
		}
	}
}

func (e *Exec) stringIndex(st *State, s *StringV, idx *term.Term, it types.Type) Value {
	i := e.indexCheck(st, idx, it, s.Len())
	if i.Sym == nil {
		return e.strByte(s, i.I)
	}
	n := s.Len()
	acc := e.strByte(s, n-1)
	for k := n - 2; k >= 0; k-- {
		acc = e.ts.Ite(e.ts.Eq(i.Sym, e.ts.Const(64, uint64(k))), e.strByte(s, k), acc)
	}
	return acc
}

func (e *Exec) makeSlice(st *State, elem types.Type, ln, cp int) *SliceV {
	el := make([]Value, cp)
	if cp > 0 {
		z := e.zero(elem)
		for i := range el {
			el[i] = z
		}
	}
	id := e.newObject(st, &ArrayV{E: el})
	return &SliceV{Obj: id, Len: ln, Cap: cp}
}

func (e *Exec) sliceOp(st *State, f *Frame, in *ssa.Slice) Value {
	x := e.get(st, f, in.X)
	bound := func(v ssa.Value, def int) int {
		if v == nil {
			return def
		}
		return e.concreteInt(st, e.get(st, f, v))
	}
	switch xv := x.(type) {
	case *StringV:
		lo := bound(in.Low, 0)
		hi := bound(in.High, xv.Len())
		if lo < 0 || hi < lo || hi > xv.Len() {
			e.goPanic(st, fmt.Sprintf("slice bounds out of range [%d:%d] with length %d", lo, hi, xv.Len()))
		}
		if xv.B == nil {
			return &StringV{S: xv.S[lo:hi]}
		}
		return e.mkString(xv.B[lo:hi])
	case *SliceV:
		lo := bound(in.Low, 0)
		hi := bound(in.High, xv.Len)
		mx := bound(in.Max, xv.Cap)
		if lo < 0 || hi < lo || mx < hi || mx > xv.Cap {
			e.goPanic(st, fmt.Sprintf("slice bounds out of range [%d:%d:%d] with capacity %d", lo, hi, mx, xv.Cap))
		}
		if xv.Obj == 0 {
			return nilSlice
		}
		return &SliceV{Obj: xv.Obj, Path: xv.Path, Off: xv.Off + lo, Len: hi - lo, Cap: mx - lo}
	case *PtrV:
		if xv.Obj == 0 {
			e.goPanic(st, "nil pointer dereference (slice of array pointer)")
		}
		n := int(in.X.Type().Underlying().(*types.Pointer).Elem().Underlying().(*types.Array).Len())
		lo := bound(in.Low, 0)
		hi := bound(in.High, n)
		mx := bound(in.Max, n)
		if lo < 0 || hi < lo || mx < hi || mx > n {
			e.goPanic(st, fmt.Sprintf("slice bounds out of range [%d:%d:%d] with array length %d", lo, hi, mx, n))
		}
		return &SliceV{Obj: xv.Obj, Path: xv.Path, Off: lo, Len: hi - lo, Cap: mx - lo}
	}
	panic(fmt.Sprintf("Slice of %T", x))
}

func (e *Exec) typeAssert(st *State, in *ssa.TypeAssert, x Value) Value {
	iv, ok := x.(*IfaceV)
	if !ok {
		if p, isP := x.(*Poison); isP {
			return p
		}
		panic(fmt.Sprintf("TypeAssert on %T", x))
	}
	matches := false
	var res Value
	if iv.T != nil {
		if it, isIface := in.AssertedType.Underlying().(*types.Interface); isIface {
			if types.Implements(iv.T, it) {
				matches = true
				res = iv
			}
		} else if types.Identical(iv.T, in.AssertedType) {
			matches = true
			res = iv.V
		}
	}
	if in.CommaOk {
		if !matches {
			res = e.zero(in.AssertedType)
		}
		return &TupleV{E: []Value{res, e.ts.Bool(matches)}}
	}
	if !matches {
		if iv.T == nil {
			e.goPanic(st, "interface conversion: interface is nil, not "+in.AssertedType.String())
		}
		e.goPanic(st, "interface conversion: "+iv.T.String()+" is not "+in.AssertedType.String())
	}
	return res
}

func (e *Exec) next(st *State, f *Frame, in *ssa.Next) bool {
	itv := e.get(st, f, in.Iter).(*IterV)
	o := e.writableObject(st, itv.Obj)
	it := o.V.(*IterData)
	if it.IsStr {
		n := it.Str.Len()
		if it.Pos >= n {
			e.set(f, in, &TupleV{E: []Value{e.ts.False, e.ts.Const(64, 0), e.ts.Const(32, 0)}})
			f.pc++
			return false
		}
		b0 := e.strByte(it.Str, it.Pos)
		if b0.IsConst() && b0.Val < 0x80 {
			e.set(f, in, &TupleV{E: []Value{e.ts.True, e.ts.Const(64, uint64(it.Pos)), e.ts.Const(32, b0.Val)}})
			o.V = &IterData{Str: it.Str, IsStr: true, Pos: it.Pos + 1}
			f.pc++
			return false
		}
		// general case: delegate to utf8.DecodeRuneInString on the suffix via a helper frame
		dec := e.lookupFunc("unicode/utf8", "DecodeRuneInString")
		if dec == nil {
			unsupported("range over symbolic string needs unicode/utf8 in the program")
		}
		var suffix *StringV
		if it.Str.B == nil {
			suffix = &StringV{S: it.Str.S[it.Pos:]}
		} else {
			suffix = e.mkString(it.Str.B[it.Pos:])
		}
		// the call result is consumed by nextResume below through a synthetic continuation
		e.pushFrame(st, dec, []Value{suffix}, nil, retNormal)
		st.top().cont = &strNextCont{in: in, it: itv, pos: it.Pos}
		return false
	}
	// map
	if it.Pos >= len(it.Keys) {
		mt := in.Iter.(*ssa.Range).X.Type().Underlying().(*types.Map)
		e.set(f, in, &TupleV{E: []Value{e.ts.False, e.zero(mt.Key()), e.zero(mt.Elem())}})
		f.pc++
		return false
	}
	k := it.Keys[it.Pos]
	md := e.getObject(st, it.Map).V.(*MapData)
	var val Value
	found := false
	for i, mk := range md.Keys {
		if (mk == k || e.sameConcrete(mk, k)) && e.entryPresent(st, md, i) {
			val = md.Vals[i]
			found = true
			break
		}
	}
	o.V = &IterData{Map: it.Map, Keys: it.Keys, Pos: it.Pos + 1}
	if !found {
		// deleted during iteration: skip
		return false
	}
	e.set(f, in, &TupleV{E: []Value{e.ts.True, k, val}})
	f.pc++
	return false
}

type strNextCont struct {
	in  *ssa.Next
	it  *IterV
	pos int
}

func (e *Exec) doReturn(st *State, f *Frame, in *ssa.Return) bool {
	var res Value
	switch len(in.Results) {
	case 0:
	case 1:
		res = e.get(st, f, in.Results[0])
	default:
		vs := make([]Value, len(in.Results))
		for i, r := range in.Results {
			vs[i] = e.get(st, f, r)
		}
		res = &TupleV{E: vs}
	}
	return e.popFrame(st, f, res)
}

// popFrame removes the top frame and delivers res to the caller.
func (e *Exec) popFrame(st *State, f *Frame, res Value) bool {
	// phase 1: reads that may request a concretisation fork (nothing has been mutated yet)
	var cval uint64
	switch c := f.cont.(type) {
	case *strNextCont:
		cval = e.concrete(st, res.(*TupleV).E[1].(*term.Term)) // size 0..4
	case *sortCont:
		cval = e.concrete(st, res.(*term.Term))
		_ = c
	}
	// phase 2
	st.frames = st.frames[:len(st.frames)-1]
	if len(st.frames) == 0 {
		st.retval = res
		return false
	}
	caller := st.top()
	if f.cont != nil {
		switch c := f.cont.(type) {
		case *strNextCont:
			tv := res.(*TupleV)
			o := e.writableObject(st, c.it.Obj)
			itd := o.V.(*IterData)
			o.V = &IterData{Str: itd.Str, IsStr: true, Pos: c.pos + int(cval)}
			e.set(caller, c.in, &TupleV{E: []Value{e.ts.True, e.ts.Const(64, uint64(c.pos)), tv.E[0]}})
			caller.pc++
		case *sortCont:
			e.sortResume(st, caller, c, cval != 0)
		case *unwindCont:
			owner := st.frames[f.panicOwner-1]
			if owner.recovered {
				// the panic was recovered: the owner returns normally through its Recover block
				st.panicking = false
				owner.recovered = false
				if owner.fn.Recover != nil {
					owner.block = owner.fn.Recover
					owner.pc = 0
				} else {
					e.returnZero(st, owner)
				}
			} else {
				st.panicking = true
			}
		case *funcCont:
			c.fn(st, caller, res)
		}
	} else {
		switch f.retMode {
		case retNormal:
			call := caller.block.Instrs[caller.pc]
			if v, ok := call.(ssa.Value); ok {
				if res == nil {
					res = &TupleV{}
				}
				e.set(caller, v, res)
			}
			caller.pc++
		case retDefer:
			// result discarded; the caller re-executes RunDefers
		}
	}
	if len(st.pauses) > 0 {
		return e.checkPause(st, nil)
	}
	return false
}

type unwindCont struct{}

type funcCont struct {
	fn func(st *State, caller *Frame, res Value)
}

var _ = token.ADD
