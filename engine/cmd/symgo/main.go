// symgo: symbolic execution of Go functions (go/ssa) into SMT queries.
package main

import (
	"encoding/json"
	"flag"
	"fmt"
	"os"
	"strings"
	"time"

	"golang.org/x/tools/go/packages"
	"golang.org/x/tools/go/ssa"
	"golang.org/x/tools/go/ssa/ssautil"

	"symgo/exec"
	"symgo/smt"
	"symgo/term"
)

func main() {
	dir := flag.String("dir", "/repo", "directory to load packages from")
	overlay := flag.String("overlay", "", "go-style overlay JSON file ({\"Replace\":{virtual:real}})")
	pkgs := flag.String("pkg", "", "comma-separated package patterns")
	entries := flag.String("entry", "", "comma-separated entries: pkgpath.Func")
	out := flag.String("out", "", "result JSON file")
	witness := flag.Bool("witness", false, "witness (vacuity) mode")
	trace := flag.Bool("trace", false, "trace instructions")
	solverKind := flag.String("solver", "z3-new", "z3 | z3-new | cvc5")
	timeout := flag.Int("qtimeout", 20000, "solver timeout per query (ms)")
	fallback := flag.String("fallback", "z3,cvc5", "solvers asked one-shot when the primary answers unknown")
	fbTimeout := flag.Int("fbtimeout", 60000, "timeout of a fallback query (ms)")
	maxPaths := flag.Int("maxpaths", 200000, "")
	maxInstrs := flag.Int64("maxinstrs", 5000000, "")
	loopLimit := flag.Int("looplimit", 4096, "")
	termBound := flag.Bool("termbound", false, "report an exhausted instruction budget / loop limit as a violation of bounded termination")
	concCap := flag.Int("conccap", 64, "maximum number of values a single concretisation may fork over")
	mergeBudget := flag.Int64("mergebudget", 64, "instructions an arm of a branch in code under test may run and still be merged at the join")
	oracleBudget := flag.Int64("oraclebudget", 200000, "same, for branches inside harness oracle functions (verif*/Verif*) and -mergefuncs")
	mergeFuncs := flag.String("mergefuncs", "", "comma-separated functions treated like oracle functions for merging")
	noMerge := flag.Bool("nomerge", false, "")
	eager := flag.Bool("eager", false, "decide branch feasibility before forking (no lazily verified arms)")
	noMergeFuncs := flag.String("nomergefuncs", "", "comma-separated function names in which branches are never merged")
	deadline := flag.Duration("deadline", 0, "wall clock budget per entry")
	smtlog := flag.String("smtlog", "", "file receiving all solver input")
	tags := flag.String("tags", "", "build tags")
	paramStr := flag.String("params", "", "k=v,... parameters for -entry runs")
	jobsFile := flag.String("jobs", "", "JSON file: [{\"entry\":..., \"params\":{...}, \"witness\":bool}] (overrides -entry)")
	flag.Parse()

	t0 := time.Now()
	cfg := &packages.Config{Mode: packages.LoadAllSyntax, Dir: *dir, Tests: false}
	if *tags != "" {
		cfg.BuildFlags = []string{"-tags=" + *tags}
	}
	if *overlay != "" {
		data, err := os.ReadFile(*overlay)
		if err != nil {
			fatal(err)
		}
		var ov struct{ Replace map[string]string }
		if err := json.Unmarshal(data, &ov); err != nil {
			fatal(err)
		}
		cfg.Overlay = map[string][]byte{}
		for virt, real := range ov.Replace {
			b, err := os.ReadFile(real)
			if err != nil {
				fatal(err)
			}
			cfg.Overlay[virt] = b
		}
	}
	loaded, err := packages.Load(cfg, strings.Split(*pkgs, ",")...)
	if err != nil {
		fatal(err)
	}
	nerr := 0
	packages.Visit(loaded, nil, func(p *packages.Package) {
		for _, e := range p.Errors {
			fmt.Fprintln(os.Stderr, "load error:", e)
			nerr++
		}
	})
	if nerr > 0 {
		os.Exit(3)
	}
	prog, _ := ssautil.AllPackages(loaded, ssa.InstantiateGenerics)
	prog.Build()
	loadS := time.Since(t0).Seconds()

	type job struct {
		Entry   string         `json:"entry"`
		Params  map[string]int `json:"params"`
		Witness bool           `json:"witness"`
		Tag     string         `json:"tag"`
		Deadline int           `json:"deadline_s"`
	}
	var jobs []job
	if *jobsFile != "" {
		data, err := os.ReadFile(*jobsFile)
		if err != nil {
			fatal(err)
		}
		if err := json.Unmarshal(data, &jobs); err != nil {
			fatal(err)
		}
	} else {
		for _, entry := range strings.Split(*entries, ",") {
			if entry != "" {
				pm := map[string]int{}
				for _, kv := range strings.Split(*paramStr, ",") {
					if i := strings.Index(kv, "="); i > 0 {
						n := 0
						fmt.Sscanf(kv[i+1:], "%d", &n)
						pm[kv[:i]] = n
					}
				}
				jobs = append(jobs, job{Entry: entry, Witness: *witness, Params: pm})
			}
		}
	}
	var results []map[string]interface{}
	exit := 0
	for _, jb := range jobs {
		entry := jb.Entry
		i := strings.LastIndex(entry, ".")
		pkgPath, fname := entry[:i], entry[i+1:]
		var fn *ssa.Function
		for _, p := range prog.AllPackages() {
			if p.Pkg.Path() == pkgPath {
				fn = p.Func(fname)
			}
		}
		if fn == nil {
			fatal(fmt.Errorf("entry %s not found", entry))
		}
		ts := term.NewStore()
		solver, err := smt.New(*solverKind, ts, *timeout)
		if err != nil {
			fatal(err)
		}
		if *smtlog != "" {
			lf, _ := os.Create(*smtlog)
			solver.Log = lf
		}
		ec := exec.Config{MaxPaths: *maxPaths, MaxInstrs: *maxInstrs, LoopLimit: *loopLimit, TermBound: *termBound, ConcretizeCap: *concCap, MergeBudget: *mergeBudget,
			NoMerge: *noMerge, Witness: jb.Witness, Trace: *trace, NoMergeFuncs: map[string]bool{}, Params: jb.Params, EagerBranches: *eager, OracleMergeBudget: *oracleBudget, MergeFuncs: map[string]bool{},
			Fallback: *fallback, FallbackTimeoutMs: *fbTimeout}
		for _, f := range strings.Split(*mergeFuncs, ",") {
			if f != "" {
				ec.MergeFuncs[f] = true
			}
		}
		for _, f := range strings.Split(*noMergeFuncs, ",") {
			if f != "" {
				ec.NoMergeFuncs[f] = true
			}
		}
		if jb.Deadline > 0 {
			ec.Deadline = time.Now().Add(time.Duration(jb.Deadline) * time.Second)
		} else if *deadline > 0 {
			ec.Deadline = time.Now().Add(*deadline)
		}
		ex := exec.New(prog, ts, solver, ec)
		t1 := time.Now()
		ex.Run(fn)
		rep := ex.Report()
		rep["entry"] = entry
		rep["wall_s"] = time.Since(t1).Seconds()
		rep["load_s"] = loadS
		rep["witness_mode"] = jb.Witness
		rep["params"] = jb.Params
		rep["tag"] = jb.Tag
		rep["solver"] = *solverKind
		results = append(results, rep)
		solver.Close()
		st := ex.Stats()
		fmt.Fprintf(os.Stderr, "%s: paths=%d forks=%d merges=%d queries=%d (%.1fs solver) violations=%d caps=%d wall=%.1fs\n",
			entry, st.Paths, st.Forks, st.Merges, solver.Stats.Queries, solver.Stats.Time.Seconds(), len(ex.Violations), len(ex.CapsHit), time.Since(t1).Seconds())
		if len(ex.Violations) > 0 {
			exit = 1
		} else if len(ex.CapsHit) > 0 && exit == 0 {
			exit = 2
		}
	}
	data, _ := json.MarshalIndent(map[string]interface{}{"results": results}, "", " ")
	if *out != "" {
		os.WriteFile(*out, data, 0o644)
	} else {
		os.Stdout.Write(data)
	}
	os.Exit(exit)
}

func fatal(err error) {
	fmt.Fprintln(os.Stderr, "symgo:", err)
	os.Exit(3)
}
