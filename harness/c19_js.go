package js

// C19 / C20 on the shipped JavaScript parser (generated tables + the hand-written parse loop of parser_impl.go, the token
// stream with semicolon insertion, the real lexer): short sources with one byte chosen by the solver.

import "context"

// '?' marks the free byte
var verifJsTemplates = [...]string{
	"a = (5+)?) x\n y",
	"function f() { a = 5 + ;?) b c }",
	"x = [1, , ) )?\n ] ",
	"var a /*c*/?, b;",
	"x = 1\ny = 2?;",
	"a = (5+1)?x\ny",
	"if (a) {?} else b",
}

type verifJsEv struct {
	t    NodeType
	s, e int
}

func VerifC19Js() {
	g := []byte(verifJsTemplates[verifParam("tmpl")])
	h := 0
	for h < len(g) && g[h] != '?' {
		h++
	}
	c := nondetByte()
	if verifParam("ascii") == 1 {
		verifAssume(c < 0x80)
	}
	// the solver enumerates the byte; the lexer's and parser's table walks are concrete afterwards
	g[h] = byte(verifConcretize(int(c)))
	text := string(g)
	var evs []verifJsEv
	listener := func(nt NodeType, offset, endoffset int) { evs = append(evs, verifJsEv{nt, offset, endoffset}) }
	var offs []int
	var s TokenStream
	var p Parser
	s.Init(text, listener)
	p.Init(func(se SyntaxError) bool {
		offs = append(offs, se.Offset, se.Endoffset)
		return true
	}, listener)
	err := p.ParseModule(context.Background(), &s)
	prev := 0
	for i := 0; i+1 < len(offs); i += 2 {
		verifAssert(0 <= offs[i] && offs[i] <= offs[i+1] && offs[i+1] <= len(text), "reported-error-inside-input")
		verifAssert(offs[i] >= prev, "reported-errors-non-decreasing")
		prev = offs[i]
	}
	if err != nil {
		_, ok := err.(SyntaxError)
		verifAssert(ok && len(offs) > 0, "failure-is-a-reported-SyntaxError")
	}
	for i := range evs {
		verifAssert(0 <= evs[i].s && evs[i].s <= evs[i].e && evs[i].e <= len(text), "node-inside-input")
		for j := 0; j < i; j++ {
			a, b := evs[j], evs[i] // a was reported before b
			disjoint := a.e <= b.s || b.e <= a.s
			bContainsA := b.s <= a.s && a.e <= b.e
			aContainsB := a.s <= b.s && b.e <= a.e
			verifAssert(disjoint || bContainsA || aContainsB, "nodes-disjoint-or-nested")
			if aContainsB && !bContainsA && !disjoint {
				verifAssert(false, "container-reported-after-its-contents")
			}
		}
	}
	if verifWitnessMode() {
		verifAssert(false, "witness")
	}
}
