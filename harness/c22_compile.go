package compiler

// C22 (compile stages): compiler.Compile on grammar texts in which one byte is chosen by the solver: no panic or process
// exit; every reported problem has a range inside the text whose line and column agree with its byte offset.

import (
	"context"

	"github.com/inspirer/textmapper/status"
)

// '?' marks the free byte
var verifCompileTemplates = [...]string{
	"language g(go);\n:: lexer\nab: /a\\?b/\n",
	"language g(go);\n:: lexer\nab: /[?-b]c)/\n",
	"language g(go);\n:: lexer\na: /a/\n:: parser\n%input ?;\n",
	"language g(go);\n:: lexer\na: /a/\n:: parser\n%lookahead flag V;\ninput : Aa ? ;\nAa : [V] a | a a ;\n",
	"language g(go);\n:: lexer\na: /a/\nb: /b/ ?\n",
	"language g(go);\n:: lexer\na: /a/\n:: parser\ninput : a ? a ;\n",
	"language g(go);\n?x = true\n:: lexer\na: /a/\n",
	"language g(go);\n:: lexer\n<?> a: /a/\n",
}

func VerifC22Compile() {
	g := []byte(verifCompileTemplates[verifParam("tmpl")])
	h := 0
	for h < len(g) && g[h] != '?' {
		h++
	}
	c := nondetByte()
	if verifParam("ascii") == 1 {
		verifAssume(c < 0x80)
	}
	// the compile pipeline is pointer-rich whole-program code: the solver enumerates the byte, every run is concrete afterwards
	g[h] = byte(verifConcretize(int(c)))
	text := string(g)
	_, err := Compile(context.Background(), "g.tm", text, Params{CheckOnly: verifParam("checkonly") == 1})
	if err != nil {
		s := status.FromError(err)
		verifAssert(len(s) > 0, "failure-carries-problems")
		for _, e := range s {
			r := e.Origin
			verifAssert(0 <= r.Offset && r.Offset <= r.EndOffset && r.EndOffset <= len(text), "problem-range-inside-text")
			if 0 <= r.Offset && r.Offset <= len(text) {
				line, col := 1, 1
				for i := 0; i < r.Offset; i++ {
					col++
					if text[i] == '\n' {
						line++
						col = 1
					}
				}
				verifAssert(r.Line == line, "problem-line-consistent-with-offset")
				verifAssert(r.Column == col, "problem-column-consistent-with-offset")
				verifAssert(r.Filename == "g.tm", "problem-names-the-file")
			}
		}
	}
	if verifWitnessMode() {
		verifAssert(false, "witness")
	}
}
