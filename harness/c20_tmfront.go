package ast

// C20 (shipped tm parser with its TokenStream and error recovery): the event stream on grammar texts with symbolic bytes,
// valid or not, and the tree built from it.

import (
	"context"

	"github.com/inspirer/textmapper/parsers/tm"
)

// a symbolic byte sits inside a rule that already has a syntax error (so that it ends up inside an error range) or in
// a valid rule; the templates end with a complete rule so that recovery has something to resume with
var verifRecTemplates = [...]string{
	"language l(a); :: lexer a = /abc/ :: parser a : + ?\n ; b : a ;",
	"language l(a); :: lexer a = /abc/ :: parser a : b ? ; b : a ;",
	"language l(a);\n:: lexer\n? a: /a/\n:: parser\ninput : a ;\n",
	"language l(a); :: lexer a = /abc/ :: parser a : ( ? ; b : a ;",
}

type verifTmEv struct {
	t    tm.NodeType
	s, e int
}

func VerifC20TmEvents() {
	g := []byte(verifRecTemplates[verifParam("tmpl")])
	k := verifParam("k")
	h := 0
	for h < len(g) && g[h] != '?' {
		h++
	}
	mid := make([]byte, k)
	for i := range mid {
		mid[i] = nondetByte()
		verifAssume(mid[i] < 0x80)
		if verifParam("conc") == 1 {
			// the lexer's table lookups on a symbolic byte cost a solver query per candidate class and state; here the solver
			// enumerates the feasible byte values instead and every run is concrete from then on
			mid[i] = byte(verifConcretize(int(mid[i])))
		}
	}
	var buf []byte
	buf = append(buf, g[:h]...)
	buf = append(buf, mid...)
	buf = append(buf, g[h+1:]...)
	text := string(buf)

	var evs []verifTmEv
	b := newBuilder("g.tm", text)
	listener := func(t tm.NodeType, s, e int) {
		evs = append(evs, verifTmEv{t, s, e})
		b.addNode(t, s, e)
	}
	var st tm.TokenStream
	st.Init(text, listener)
	var p tm.Parser
	reports := 0
	p.Init(func(se tm.SyntaxError) bool { reports++; return true }, listener)
	err := p.ParseFile(context.Background(), &st)
	if err != nil {
		_, ok := err.(tm.SyntaxError)
		verifAssert(ok && reports > 0, "failure-is-a-reported-SyntaxError")
	}
	for i := range evs {
		verifAssert(0 <= evs[i].s && evs[i].s <= evs[i].e && evs[i].e <= len(text), "node-inside-input")
		for j := 0; j < i; j++ {
			a, c := evs[j], evs[i] // a was reported before c
			disjoint := a.e <= c.s || c.e <= a.s
			cContainsA := c.s <= a.s && a.e <= c.e
			aContainsC := a.s <= c.s && c.e <= a.e
			verifAssert(disjoint || cContainsA || aContainsC, "nodes-disjoint-or-nested")
			if aContainsC && !cContainsA && !disjoint {
				verifAssert(false, "container-reported-after-its-contents")
			}
		}
	}
	if err == nil {
		tree, berr := b.build()
		verifAssert(berr == nil && tree != nil && tree.root != nil, "build-succeeds")
		if berr == nil && tree != nil && tree.root != nil {
			count := 0
			var walk func(n *Node)
			walk = func(n *Node) {
				count++
				if count > 2*len(evs)+4 {
					return
				}
				prevEnd := n.offset
				for c := n.firstChild; c != nil; c = c.next {
					verifAssert(c.parent == n && n.offset <= c.offset && c.endoffset <= n.endoffset, "child-inside-parent")
					verifAssert(prevEnd <= c.offset, "siblings-in-source-order")
					prevEnd = c.endoffset
					walk(c)
					if count > 2*len(evs)+4 {
						return
					}
				}
			}
			walk(tree.root)
			empties := 0
			for _, ev := range evs {
				if ev.s == ev.e && ev.s == len(text) {
					empties++ // KNOWN_FINDINGS.txt C20 empty-node-at-end-of-input: such nodes are dropped by build()
				}
			}
			verifAssert(count >= len(evs)+1-empties && count <= len(evs)+1, "exactly-the-reported-nodes")
		}
	}
	if verifWitnessMode() {
		verifAssert(false, "witness")
	}
}
