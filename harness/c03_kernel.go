package lalr

// C03 (kernels): conflict accounting against %expect/%expect-rr, and computeEmpty on a symbolic grammar skeleton.

import (
	"github.com/inspirer/textmapper/status"
	"github.com/inspirer/textmapper/util/container"
)

type verifOrigin struct{}

func (verifOrigin) SourceRange() status.SourceRange { return status.SourceRange{Filename: "g.tm", Line: 1, Column: 1} }

// A conflict error is raised if and only if the counted conflicts differ from the declared expectations.
func VerifC03Expect() {
	nconf := verifParam("nconf")
	sr, rr, esr, err := nondetInt(), nondetInt(), nondetInt(), nondetInt()
	verifAssume(sr >= 0 && sr < 4 && rr >= 0 && rr < 4 && esr >= 0 && esr < 4 && err >= 0 && err < 4)
	g := &Grammar{
		Terminals: 2,
		Symbols:   []string{"eoi", "a", "S"},
		Rules:     []Rule{{LHS: 2, RHS: []Sym{1}, Origin: verifOrigin{}}, {LHS: 2, RHS: []Sym{1, 1}, Origin: verifOrigin{}}},
		ExpectSR:  esr,
		ExpectRR:  err,
		Origin:    verifOrigin{},
	}
	c := &compiler{grammar: g, out: &Tables{DefaultEnc: &DefaultEnc{}}, sr: sr, rr: rr}
	for i := 0; i < nconf; i++ {
		c.conflicts = append(c.conflicts, &Conflict{Kind: "shift/reduce", CanShift: true, Next: []Sym{1}, Rules: []int{i % 2}, g: g})
	}
	c.reportConflicts(false, false)
	failed := c.s.Err() != nil
	verifAssert(failed == (sr != esr || rr != err), "error-iff-counts-differ-from-expectations")
	verifAssert(c.out.SR == sr && c.out.RR == rr, "counts-are-published")
	if verifWitnessMode() {
		verifAssert(false, "witness")
	}
}

// computeEmpty: nullable nonterminals of a symbolic grammar (3 nonterminals over 1 terminal; rule lengths are free
// choices, left-hand sides and symbols are solver variables) against a reference fixpoint.
func VerifC03Empty() {
	nr := verifParam("nr")
	const terms, nts = 2, 3
	g := &Grammar{Terminals: terms, Symbols: []string{"eoi", "a", "X", "Y", "Z"}}
	lhs := make([]int, nr)
	rhs := make([][]int, nr)
	for i := 0; i < nr; i++ {
		l := nondetInt()
		verifAssume(l >= terms && l < terms+nts)
		lhs[i] = l
		k := verifChoice(3)
		r := make([]Sym, k)
		rhs[i] = make([]int, k)
		for j := 0; j < k; j++ {
			s := nondetInt()
			verifAssume(s >= 1 && s < terms+nts)
			rhs[i][j] = s
			r[j] = Sym(s)
		}
		g.Rules = append(g.Rules, Rule{LHS: Sym(l), RHS: r})
	}
	c := &compiler{grammar: g, empty: container.NewBitSet(terms + nts)}
	c.computeEmpty()
	// reference: nts rounds of relaxation, branch-free
	null := make([]int, terms+nts)
	for round := 0; round <= nts; round++ {
		for i := 0; i < nr; i++ {
			all := 1
			for _, s := range rhs[i] {
				sn := 0
				for x := terms; x < terms+nts; x++ {
					sn |= verifB2I(s == x) & null[x]
				}
				all &= sn
			}
			for x := terms; x < terms+nts; x++ {
				null[x] |= verifB2I(lhs[i] == x) & all
			}
		}
	}
	for x := terms; x < terms+nts; x++ {
		verifAssert(verifB2I(c.empty.Get(x)) == null[x], "nullable-set-is-the-least-fixpoint")
	}
	verifAssert(!c.empty.Get(0) && !c.empty.Get(1), "terminals-are-not-nullable")
	if verifWitnessMode() {
		verifAssert(false, "witness")
	}
}
