package set

// C25 (closure part): set.Closure on a symbolic equation system.
// Node i (i < K) is created in index order through the public API:
//   kind 0: union node        Add(base_i) + Include(targets...)   (targets: any node, cycles allowed)
//   kind 1: intersection node Intersect(targets...)               (targets: earlier nodes, as the API requires)
//   kind 2: complement node   Complement(target)                  (target: an earlier node or, via a union proxy, anything)
// Kinds are a driver parameter, edge targets and degrees are free choices (verifChoice: one path per
// choice, no solver involved), base-set elements and the probe are symbolic.
// Oracle: stratified least fixpoint evaluated for one symbolic probe element.

import "github.com/inspirer/textmapper/util/container"

const verifCU = 4 // universe [0, verifCU)

func verifInSet(s container.IntSet, x int) int {
	in := 0
	for _, v := range s.Set {
		in |= verifB2I(v == x)
	}
	return in ^ verifB2I(s.Inverse)
}

func verifPow3(i int) int {
	r := 1
	for ; i > 0; i-- {
		r *= 3
	}
	return r
}

func VerifC25Closure() {
	k := verifParam("k")
	buf := verifParam("buf")
	c := NewClosure(buf)
	kinds := make([]int, k)
	edges := make([][]int, k)
	base := make([][]int, k)
	nodes := make([]*FutureSet, k)
	for i := 0; i < k; i++ {
		kind := (verifParam("kinds") / verifPow3(i)) % 3 // driver parameter: base-3 digits, node 0 first
		kinds[i] = kind
		switch kind {
		case 0:
			ln := verifParam("len")
			if i%2 == 1 {
				ln = verifParam("len") - 1
				if ln < 0 {
					ln = 0
				}
			}
			set := make([]int, ln)
			prev := -1
			for j := range set {
				v := nondetInt()
				verifAssume(v > prev && v < verifCU)
				set[j] = v
				prev = v
			}
			base[i] = set
			nodes[i] = c.Add(append([]int(nil), set...))
		case 1:
			deg := 1 + verifChoice(verifParam("ideg"))
			var ops []*FutureSet
			for d := 0; d < deg; d++ {
				t := verifChoice(i)
				edges[i] = append(edges[i], t)
				ops = append(ops, nodes[t])
			}
			nodes[i] = c.Intersect(ops...)
		case 2:
			t := verifChoice(i)
			edges[i] = []int{t}
			nodes[i] = c.Complement(nodes[t], nil)
		}
	}
	// Include edges of union nodes (any target, any order, duplicates allowed)
	for i := 0; i < k; i++ {
		if kinds[i] != 0 {
			continue
		}
		deg := verifChoice(verifParam("udeg") + 1)
		for d := 0; d < deg; d++ {
			t := verifChoice(k)
			edges[i] = append(edges[i], t)
			nodes[i].Include(nodes[t])
		}
	}
	x := nondetInt()
	verifAssume(x >= 0 && x < verifCU)

	err := c.Compute()

	// ---- oracle (structure is concrete on this path) ----
	reach := make([][]bool, k)
	for i := range reach {
		reach[i] = make([]bool, k)
		for _, t := range edges[i] {
			reach[i][t] = true
		}
	}
	for m := 0; m < k; m++ {
		for i := 0; i < k; i++ {
			for j := 0; j < k; j++ {
				if reach[i][m] && reach[m][j] {
					reach[i][j] = true
				}
			}
		}
	}
	wantErr := false
	for i := 0; i < k; i++ {
		if kinds[i] == 2 {
			t := edges[i][0]
			if t == i || reach[t][i] {
				wantErr = true
			}
		}
	}
	verifAssert((err != nil) == wantErr, "error-iff-complement-on-cycle")
	if err == nil && !wantErr {
		// stratified evaluation: process nodes in an order where everything a node depends on outside its
		// own strongly connected component is final; inside a component iterate from the empty set.
		val := make([]int, k)
		done := make([]bool, k)
		for round := 0; round < k; round++ {
			// pick a component all of whose external dependencies are done
			for i := 0; i < k; i++ {
				if done[i] {
					continue
				}
				ready := true
				for j := 0; j < k; j++ {
					if reach[i][j] && !(reach[j][i] || j == i) && !done[j] {
						ready = false
					}
				}
				if !ready {
					continue
				}
				// component of i
				var comp []int
				for j := 0; j < k; j++ {
					if j == i || (reach[i][j] && reach[j][i]) {
						comp = append(comp, j)
					}
				}
				for _, j := range comp {
					val[j] = 0
				}
				for it := 0; it <= len(comp); it++ {
					for _, j := range comp {
						switch kinds[j] {
						case 0:
							v := 0
							for _, e := range base[j] {
								v |= verifB2I(e == x)
							}
							for _, t := range edges[j] {
								v |= val[t]
							}
							val[j] = v
						case 1:
							v := 1
							for _, t := range edges[j] {
								v &= val[t]
							}
							val[j] = v
						case 2:
							val[j] = 1 - val[edges[j][0]]
						}
					}
				}
				for _, j := range comp {
					done[j] = true
				}
			}
		}
		for i := 0; i < k; i++ {
			verifAssert(done[i], "oracle-complete")
			verifAssert(verifInSet(nodes[i].IntSet, x) == val[i], "least-solution")
			ok := 1
			for j := 1; j < len(nodes[i].Set); j++ {
				ok &= verifB2I(nodes[i].Set[j-1] < nodes[i].Set[j])
			}
			verifAssert(ok == 1, "result-sorted")
		}
	}
	if verifWitnessMode() {
		verifAssert(false, "witness")
	}
}
