package diff

// C27: Myers diff (lcs/trace/middle/chunk.merge) on symbolic line ids and LineDiff/hunk on texts with
// symbolic line contents.

import "strings"

func verifIds(which string, k int) []int {
	n := verifParam(which)
	s := make([]int, n)
	for i := range s {
		v := nondetInt()
		verifAssume(v >= 0 && v < k)
		s[i] = v
	}
	return s
}

// verifLCSLen: reference dynamic programme (branch-free on the symbolic ids).
func verifLCSLen(a, b []int) int {
	prev := make([]int, len(b)+1)
	for i := 1; i <= len(a); i++ {
		cur := make([]int, len(b)+1)
		for j := 1; j <= len(b); j++ {
			best := verifIte(prev[j] > cur[j-1], prev[j], cur[j-1])
			cur[j] = verifIte(a[i-1] == b[j-1], prev[j-1]+1, best)
		}
		prev = cur
	}
	return prev[len(b)]
}

func VerifC27Lcs() {
	k := verifParam("k")
	a := verifIds("la", k)
	b := verifIds("lb", k)
	ac := append([]int(nil), a...)
	bc := append([]int(nil), b...)
	want := verifLCSLen(a, b)
	chunks := lcs(a, b)
	ai, bi, edits := 0, 0, 0
	for _, c := range chunks {
		verifAssert(c.del >= 0 && c.ins >= 0 && c.eq >= 0, "chunk-nonnegative")
		ai += c.del
		bi += c.ins
		edits += c.del + c.ins
		verifAssert(ai+c.eq <= len(a) && bi+c.eq <= len(b), "script-inside-texts")
		if ai+c.eq > len(a) || bi+c.eq > len(b) {
			return
		}
		for e := 0; e < c.eq; e++ {
			verifAssert(ac[ai+e] == bc[bi+e], "equal-run-is-equal")
		}
		ai += c.eq
		bi += c.eq
	}
	verifAssert(ai == len(a) && bi == len(b), "script-covers-both-texts")
	verifAssert(edits == len(a)+len(b)-2*want, "script-is-minimal")
	for i := range a {
		verifAssert(a[i] == ac[i], "input-a-unchanged")
	}
	for i := range b {
		verifAssert(b[i] == bc[i], "input-b-unchanged")
	}
	if verifWitnessMode() {
		verifAssert(false, "witness")
	}
}

// ---- LineDiff ----

// verifText builds a text of n lines; line i is the one-byte line base[i] unless position i is in the
// hole set (bit i of holes), where it is one symbolic byte out of {'x','y',base[i]}; positions in the
// set "empty" are empty lines.
func verifText(n, holes, empty int, base string) []string {
	lines := make([]string, n)
	for i := 0; i < n; i++ {
		b := base[i%len(base)]
		if holes>>uint(i)&1 == 1 {
			v := nondetByte()
			verifAssume(v == 'x' || v == 'y' || v == b)
			b = v
		}
		lines[i] = string([]byte{b})
		if empty>>uint(i)&1 == 1 {
			lines[i] = ""
		}
	}
	return lines
}

// verifApply applies a unified diff (as rendered by LineDiff) to left; ok=false when it does not apply.
func verifApply(left []string, d string) ([]string, bool) {
	var out []string
	pos := 0 // next unconsumed line of left (0-based)
	dl := strings.Split(d, "\n")
	if len(dl) > 0 && dl[len(dl)-1] == "" {
		dl = dl[:len(dl)-1]
	}
	i := 0
	for i < len(dl) {
		h := dl[i]
		if !strings.HasPrefix(h, "@@ -") || !strings.HasSuffix(h, " @@") {
			return nil, false
		}
		var l0, ls, r0, rs int
		f := strings.Fields(h) // @@ -l,s +l,s @@
		if len(f) != 4 {
			return nil, false
		}
		l0, ls = verifPair(f[1][1:])
		r0, rs = verifPair(f[2][1:])
		if l0 < 0 || r0 < 0 || f[2][0] != '+' {
			return nil, false
		}
		i++
		start := l0 - 1
		if ls == 0 {
			start = l0 // unified format: a zero-length range names the line before it
		}
		if start < pos || start > len(left) {
			return nil, false
		}
		out = append(out, left[pos:start]...)
		pos = start
		if rs != 0 && r0-1 != len(out) {
			return nil, false
		}
		if rs == 0 && r0 != len(out) {
			return nil, false
		}
		nl, nr := 0, 0
		for i < len(dl) && !strings.HasPrefix(dl[i], "@@ ") && (nl < ls || nr < rs) {
			ln := dl[i]
			if len(ln) == 0 {
				return nil, false
			}
			switch ln[0] {
			case ' ':
				if pos >= len(left) || left[pos] != ln[1:] {
					return nil, false
				}
				out = append(out, ln[1:])
				pos++
				nl++
				nr++
			case '-':
				if pos >= len(left) || left[pos] != ln[1:] {
					return nil, false
				}
				pos++
				nl++
			case '+':
				out = append(out, ln[1:])
				nr++
			default:
				return nil, false
			}
			i++
		}
		if nl != ls || nr != rs {
			return nil, false
		}
	}
	out = append(out, left[pos:]...)
	return out, true
}

func verifPair(s string) (int, int) {
	c := strings.IndexByte(s, ',')
	if c < 0 {
		return -1, -1
	}
	return verifAtoi(s[:c]), verifAtoi(s[c+1:])
}

func verifAtoi(s string) int {
	if len(s) == 0 {
		return -1
	}
	n := 0
	for i := 0; i < len(s); i++ {
		if s[i] < '0' || s[i] > '9' {
			return -1
		}
		n = n*10 + int(s[i]-'0')
	}
	return n
}

func VerifC27LineDiff() {
	nl, nr := verifParam("nl"), verifParam("nr")
	const base = "abcdefghijklmnopqrstuvw"
	shift := verifParam("shift") // right text's base is rotated by this much (insertions/deletions at the front)
	left := verifText(nl, verifParam("hl"), verifParam("el"), base)
	right := verifText(nr, verifParam("hr"), verifParam("er"), base[shift:]+base[:shift])
	// "pre"/"prel": extra one-byte lines ('x' or 'y', symbolic) in front of the right / left text (pure insertions or deletions at the top)
	for k := 0; k < verifParam("pre"); k++ {
		v := nondetByte()
		verifAssume(v == 'x' || v == 'y')
		right = append([]string{string([]byte{v})}, right...)
	}
	for k := 0; k < verifParam("prel"); k++ {
		v := nondetByte()
		verifAssume(v == 'x' || v == 'y')
		left = append([]string{string([]byte{v})}, left...)
	}
	l, r := strings.Join(left, "\n"), strings.Join(right, "\n")
	d := LineDiff(l, r)
	same := len(left) == len(right)
	if same {
		for i := range left {
			if left[i] != right[i] {
				same = false
			}
		}
	}
	verifAssert((d == "") == same, "empty-iff-equal")
	if d != "" {
		got, ok := verifApply(left, d)
		verifAssert(ok, "hunks-apply")
		if ok {
			eq := len(got) == len(right)
			if eq {
				for i := range got {
					if got[i] != right[i] {
						eq = false
					}
				}
			}
			verifAssert(eq, "applied-diff-gives-right")
		}
	}
	if verifWitnessMode() {
		verifAssert(false, "witness")
	}
}
