package sparse

// C03 (kernel): sparse.Union on symbolic sets, with the scratch buffer reused by a second call.

import "github.com/inspirer/textmapper/util/container"

const verifSpN = 6 // universe [0, verifSpN)

func verifSpSet(n int) Set {
	s := make(Set, n)
	for i := range s {
		v := nondetInt()
		verifAssume(v >= 0 && v < verifSpN)
		for j := 0; j < i; j++ {
			verifAssume(s[j] != v) // a Set holds distinct numbers
		}
		s[i] = v
	}
	return s
}

func verifSpHas(s Set, x int) int {
	h := 0
	for _, v := range s {
		h |= verifB2I(v == x)
	}
	return h
}

func VerifC03Union() {
	shape := verifParam("shape") // base-4 digits: sizes of up to three sets
	rcap := verifParam("rcap")   // capacity of the reuse buffer
	var sets []Set
	for sh := shape; sh > 0; sh /= 4 {
		sets = append(sets, verifSpSet(sh%4))
	}
	aux := container.NewBitSet(verifSpN)
	reuse := make([]int, 0, rcap)
	x := nondetInt()
	verifAssume(x >= 0 && x < verifSpN)
	u := Union(sets, aux, reuse)
	want := 0
	for _, s := range sets {
		want |= verifSpHas(s, x)
	}
	verifAssert(verifSpHas(u, x) == want, "union-membership")
	for i := range u {
		for j := 0; j < i; j++ {
			verifAssert(u[i] != u[j], "union-elements-distinct")
		}
	}
	for v := 0; v < verifSpN; v++ {
		verifAssert(!aux.Get(v), "aux-left-zeroed")
	}
	// the result is immutable: another union through the same scratch buffer must not disturb it
	snapshot := append(Set(nil), u...)
	other := verifSpSet(2)
	other2 := verifSpSet(1)
	_ = Union([]Set{other, other2}, aux, reuse)
	same := len(u) == len(snapshot)
	for i := range snapshot {
		if i < len(u) && u[i] != snapshot[i] {
			same = false
		}
	}
	verifAssert(same, "result-survives-reuse-of-the-scratch-buffer")
	if verifWitnessMode() {
		verifAssert(false, "witness")
	}
}
