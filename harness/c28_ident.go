package ident

// C28 (kernel): ident.Produce / IsValid on symbolic symbol names.

func verifIDStart(b byte) bool { return b >= 'a' && b <= 'z' || b >= 'A' && b <= 'Z' || b == '_' }
func verifIDEnd(b byte) bool   { return verifIDStart(b) || b >= '0' && b <= '9' }
func verifIDMid(b byte) bool   { return verifIDEnd(b) || b == '-' }

func verifHasLower(s string) bool {
	for i := 0; i < len(s); i++ {
		if s[i] >= 'a' && s[i] <= 'z' {
			return true
		}
	}
	return false
}

func VerifC28Produce() {
	n := verifParam("n")       // number of name bytes
	kind := verifParam("kind") // 0 unquoted identifier, 1 'quoted', 2 "quoted"
	style := Style(verifParam("style"))
	body := make([]byte, n)
	for i := range body {
		body[i] = nondetByte()
	}
	var name string
	switch kind {
	case 0:
		// ID = [a-zA-Z_]([a-zA-Z_\-0-9]*[a-zA-Z_0-9])?
		verifAssume(verifIDStart(body[0]))
		for i := 1; i < n; i++ {
			verifAssume(verifIDMid(body[i]))
		}
		verifAssume(n == 1 || verifIDEnd(body[n-1]))
		name = string(body)
	default:
		q := byte('\'')
		if kind == 2 {
			q = '"'
		}
		for i := range body {
			verifAssume(body[i] >= 0x20 && body[i] < 0x7f && body[i] != q && body[i] != '\\')
		}
		name = string(append(append([]byte{q}, body...), q))
	}
	// known finding (KNOWN_FINDINGS.txt, C28 name-without-letters): unquoted names without any letter or digit ("_", "__", "_-_").
	// nounder=1 excludes exactly that shape, nounder=2 selects it (the dedicated job that confirms the finding).
	alnum := false
	for i := range body {
		if body[i] >= 'a' && body[i] <= 'z' || body[i] >= 'A' && body[i] <= 'Z' || body[i] >= '0' && body[i] <= '9' {
			alnum = true
		}
	}
	if verifParam("nounder") == 1 {
		verifAssume(alnum || kind != 0)
	}
	if verifParam("nounder") == 2 {
		verifAssume(!alnum && kind == 0)
	}
	id := Produce(name, style)
	verifAssert(id != "", "identifier-non-empty")
	verifAssert(IsValid(id), "identifier-valid")
	switch style {
	case UpperCase, UpperUnderscores:
		verifAssert(!verifHasLower(id), "upper-style-has-no-lower-case-letters")
	case CamelCase:
		if id != "" {
			verifAssert(!(id[0] >= 'a' && id[0] <= 'z'), "CamelCase-starts-upper")
		}
	case CamelLower:
		if id != "" {
			verifAssert(!(id[0] >= 'A' && id[0] <= 'Z'), "camelLower-starts-lower")
		}
	}
	if verifWitnessMode() {
		verifAssert(false, "witness")
	}
}
