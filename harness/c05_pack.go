package lalr

// C05 (kernel): lalr.pack / allocator.place / hash on symbolic lines, and pickDefault on a symbolic array.
// The decoding contract is the one the generated parsers use for both the action and the goto lookup:
//   pos := index[line] + q;  hit := 0 <= pos < len(table) && check[pos] == q;  value := table[pos]
// A line must decode to exactly its own pairs, for every probe position q.

func VerifC05Pack() {
	nl := verifParam("nl")       // number of lines
	shape := verifParam("shape") // base-4 digits: pairs per line (1..3), line 0 first
	maxPos := verifParam("maxpos")
	maxVal := verifParam("maxval")
	lines := make([]line, nl)
	for i := 0; i < nl; i++ {
		k := shape % 4
		shape /= 4
		prev := -1
		for j := 0; j < k; j++ {
			pos, val := nondetInt(), nondetInt()
			verifAssume(pos > prev && pos <= maxPos)
			verifAssume(val >= -maxVal && val <= maxVal)
			lines[i].pairs = append(lines[i].pairs, pair{pos, val})
			prev = pos
		}
	}
	indices, table, check := pack(lines)
	verifAssert(len(indices) == nl && len(table) == len(check), "pack-shapes")
	q := nondetInt()
	verifAssume(q >= 0 && q <= maxPos)
	for i := 0; i < nl; i++ {
		present, want := 0, 0
		for _, p := range lines[i].pairs {
			present |= verifB2I(p.pos == q)
			want = verifIte(p.pos == q, p.val, want)
		}
		pos := indices[i] + q
		inRange := verifB2I(pos >= 0) & verifB2I(pos < len(table))
		// read without going out of range: the generated code guards the access the same way
		hit := 0
		got := 0
		if inRange == 1 {
			hit = verifB2I(check[pos] == q)
			got = table[pos]
		}
		verifAssert(hit == present, "decodes-exactly-its-own-positions")
		verifAssert(hit == 0 || got == want, "decodes-its-own-values")
	}
	if verifWitnessMode() {
		verifAssert(false, "witness")
	}
}

func VerifC05PickDefault() {
	n := verifParam("n")
	lo, hi := -verifParam("maxval"), verifParam("maxval")
	arr := make([]int, n)
	for i := range arr {
		v := nondetInt()
		verifAssume(v >= lo && v <= hi)
		arr[i] = v
	}
	reuse := make([]int, hi-lo+1)
	def := pickDefault(arr, reuse)
	cnt := 0
	for _, v := range arr {
		cnt += verifB2I(v == def)
	}
	verifAssert(cnt > 0, "default-occurs")
	for _, w := range arr {
		c := 0
		for _, v := range arr {
			c += verifB2I(v == w)
		}
		verifAssert(c <= cnt, "default-is-most-frequent")
	}
	if verifWitnessMode() {
		verifAssert(false, "witness")
	}
}
