package graph

// C26: Tarjan, Matrix.Closure/Graph, Transpose, LongestPath on a graph with symbolic adjacency.
// The graph has n vertices (driver parameter); every ordered pair (i,j) carries a symbolic
// multiplicity m(i,j) in {0,1,2} (parallel edges allowed: the functions take adjacency lists), edges
// listed in target order or reversed target order (driver parameter "rev").

import "github.com/inspirer/textmapper/util/container"

func verifGraph(n int) ([][]int, [][]int) {
	mult := make([][]int, n)
	g := make([][]int, n)
	maxm := verifParam("maxm")
	rev := verifParam("rev")
	for i := 0; i < n; i++ {
		mult[i] = make([]int, n)
		for jj := 0; jj < n; jj++ {
			j := jj
			if rev == 1 {
				j = n - 1 - jj
			}
			m := 0
			if nondetBool() {
				m = 1
				if maxm > 1 && nondetBool() {
					m = 2
				}
			}
			mult[i][j] = m
			for k := 0; k < m; k++ {
				g[i] = append(g[i], j)
			}
		}
	}
	return g, mult
}

// verifReach computes reach[i][j] = 1 iff there is a path of length >= 1 from i to j (Warshall over 0/1 ints).
func verifReach(n int, mult [][]int) [][]int {
	r := make([][]int, n)
	for i := range r {
		r[i] = make([]int, n)
		for j := range r[i] {
			r[i][j] = verifB2I(mult[i][j] > 0)
		}
	}
	for m := 0; m < n; m++ {
		for i := 0; i < n; i++ {
			for j := 0; j < n; j++ {
				r[i][j] |= r[i][m] & r[m][j]
			}
		}
	}
	return r
}

func VerifC26Tarjan() {
	n := verifParam("n")
	g, mult := verifGraph(n)
	reach := verifReach(n, mult)
	comp := make([]int, n) // component number (order of the callback), -1 = not reported
	for i := range comp {
		comp[i] = -1
	}
	ncomp := 0
	Tarjan(g, func(vertices []int, onStack container.BitSet) {
		verifAssert(len(vertices) > 0, "component-nonempty")
		for _, v := range vertices {
			verifAssert(v >= 0 && v < n, "vertex-in-range")
			verifAssert(comp[v] == -1, "vertex-reported-once")
			verifAssert(onStack.Get(v), "component-on-stack")
			comp[v] = ncomp
		}
		ncomp++
	})
	for i := 0; i < n; i++ {
		verifAssert(comp[i] >= 0, "every-vertex-reported")
	}
	for i := 0; i < n; i++ {
		for j := 0; j < n; j++ {
			if i == j {
				continue
			}
			same := reach[i][j]&reach[j][i] == 1
			verifAssert((comp[i] == comp[j]) == same, "component-iff-mutually-reachable")
			// reverse topological order: if i reaches j (different components), j's component comes first
			if reach[i][j] == 1 && !same {
				verifAssert(comp[j] < comp[i], "reverse-topological-order")
			}
		}
	}
	if verifWitnessMode() {
		verifAssert(false, "witness")
	}
}

func VerifC26Closure() {
	n := verifParam("n")
	_, mult := verifGraph(n)
	reach := verifReach(n, mult)
	m := NewMatrix(n)
	for i := 0; i < n; i++ {
		for j := 0; j < n; j++ {
			if mult[i][j] > 0 {
				m.AddEdge(i, j)
			}
		}
	}
	m.Closure()
	for i := 0; i < n; i++ {
		for j := 0; j < n; j++ {
			verifAssert(m.HasEdge(i, j) == (reach[i][j] == 1), "closure-iff-reachable")
		}
	}
	// Graph(): adjacency lists of the closed matrix, sorted targets
	var reuse []int
	if verifParam("rev") == 1 {
		reuse = make([]int, 0, 3)
	}
	adj := m.Graph(reuse)
	verifAssert(len(adj) == n, "graph-len")
	for i := 0; i < n && i < len(adj); i++ {
		cnt := 0
		for j := 0; j < n; j++ {
			cnt += reach[i][j]
		}
		verifAssert(len(adj[i]) == cnt, "graph-degree")
		for k, t := range adj[i] {
			verifAssert(t >= 0 && t < n, "graph-target-range")
			if t >= 0 && t < n {
				verifAssert(reach[i][t] == 1, "graph-edge-exists")
			}
			if k > 0 {
				verifAssert(adj[i][k-1] < t, "graph-targets-sorted")
			}
		}
	}
	if verifWitnessMode() {
		verifAssert(false, "witness")
	}
}

func VerifC26Transpose() {
	n := verifParam("n")
	g, mult := verifGraph(n)
	t := Transpose(g)
	verifAssert(len(t) == n, "transpose-len")
	for j := 0; j < n && j < len(t); j++ {
		for i := 0; i < n; i++ {
			cnt := 0
			for _, from := range t[j] {
				if from == i {
					cnt++
				}
			}
			verifAssert(cnt == mult[i][j], "transpose-multiplicity")
		}
	}
	// the input is left untouched
	for i := 0; i < n; i++ {
		tot := 0
		for j := 0; j < n; j++ {
			tot += mult[i][j]
		}
		verifAssert(len(g[i]) == tot, "transpose-input-unchanged")
	}
	if verifWitnessMode() {
		verifAssert(false, "witness")
	}
}

func VerifC26LongestPath() {
	n := verifParam("n")
	g, mult := verifGraph(n)
	reach := verifReach(n, mult)
	cyclic := 0
	for i := 0; i < n; i++ {
		cyclic |= reach[i][i]
	}
	// reference longest path length (in vertices) for acyclic graphs: n rounds of relaxation
	h := make([]int, n)
	for i := range h {
		h[i] = 1
	}
	for round := 0; round < n; round++ {
		for i := 0; i < n; i++ {
			for j := 0; j < n; j++ {
				h[i] = verifIte(mult[i][j] > 0 && h[j]+1 > h[i] && h[j] < n, h[j]+1, h[i])
			}
		}
	}
	best := 0
	for i := 0; i < n; i++ {
		best = verifIte(h[i] > best, h[i], best)
	}
	p := LongestPath(g)
	verifAssert((p == nil) == (cyclic == 1 || n == 0), "nil-iff-cyclic")
	if cyclic == 0 && p != nil {
		verifAssert(len(p) == best, "path-has-maximum-length")
		for k, v := range p {
			verifAssert(v >= 0 && v < n, "path-vertex-range")
			if k > 0 && v >= 0 && v < n && p[k-1] >= 0 && p[k-1] < n {
				verifAssert(mult[p[k-1]][v] > 0, "path-follows-edges")
			}
		}
	}
	if verifWitnessMode() {
		verifAssert(false, "witness")
	}
}
