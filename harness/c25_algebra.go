package container

// C25 (algebra part): Merge / Intersect / Complement / Equals / BitSet on two symbolic sets.
// Bounds: la, lb elements (driver parameters), universe [0, verifC25U), arbitrary Inverse flags,
// reuse buffer nil / empty / capacity 1 / capacity 8 (never aliasing an operand).

const verifC25U = 64

func verifSet(which string, u int) IntSet {
	ln := verifParam(which)
	set := make([]int, ln)
	prev := -1
	for i := range set {
		v := nondetInt()
		verifAssume(v > prev && v < u)
		set[i] = v
		prev = v
	}
	return IntSet{Inverse: nondetBool(), Set: set}
}

func verifMember(s IntSet, x int) bool {
	in := false
	for _, v := range s.Set {
		if v == x {
			in = true
		}
	}
	return in != s.Inverse
}

func verifSorted(s []int) bool {
	ok := true
	for i := 1; i < len(s); i++ {
		if s[i-1] >= s[i] {
			ok = false
		}
	}
	return ok
}

func verifReuse() []int {
	rc := verifParam("rc")
	switch rc {
	case 1:
		return make([]int, 0)
	case 2:
		return make([]int, 1)
	case 3:
		return make([]int, 8)
	}
	return nil
}

func verifUnchanged(s IntSet, c []int, id string) {
	for i := range c {
		verifAssert(s.Set[i] == c[i], id)
	}
}

func VerifC25Merge() {
	a := verifSet("la", verifC25U)
	b := verifSet("lb", verifC25U)
	reuse := verifReuse()
	x := nondetInt()
	verifAssume(x >= 0 && x < verifC25U)
	ina, inb := verifMember(a, x), verifMember(b, x)
	ca := append([]int(nil), a.Set...)
	cb := append([]int(nil), b.Set...)
	m := Merge(a, b, reuse)
	verifAssert(verifMember(m, x) == (ina || inb), "merge-membership")
	verifAssert(verifSorted(m.Set), "merge-sorted")
	for _, v := range m.Set {
		verifAssert(v >= 0 && v < verifC25U, "merge-universe")
	}
	verifUnchanged(a, ca, "merge-operand-a-unchanged")
	verifUnchanged(b, cb, "merge-operand-b-unchanged")
	if verifWitnessMode() {
		verifAssert(false, "witness")
	}
}

func VerifC25Intersect() {
	a := verifSet("la", verifC25U)
	b := verifSet("lb", verifC25U)
	reuse := verifReuse()
	x := nondetInt()
	verifAssume(x >= 0 && x < verifC25U)
	ina, inb := verifMember(a, x), verifMember(b, x)
	ca := append([]int(nil), a.Set...)
	cb := append([]int(nil), b.Set...)
	n := Intersect(a, b, reuse)
	verifAssert(verifMember(n, x) == (ina && inb), "intersect-membership")
	verifAssert(verifSorted(n.Set), "intersect-sorted")
	for _, v := range n.Set {
		verifAssert(v >= 0 && v < verifC25U, "intersect-universe")
	}
	verifUnchanged(a, ca, "intersect-operand-a-unchanged")
	verifUnchanged(b, cb, "intersect-operand-b-unchanged")
	if verifWitnessMode() {
		verifAssert(false, "witness")
	}
}

func VerifC25Misc() {
	a := verifSet("la", verifC25U)
	b := verifSet("lb", verifC25U)
	x := nondetInt()
	verifAssume(x >= 0 && x < verifC25U)
	ina, inb := verifMember(a, x), verifMember(b, x)

	c := a.Complement()
	verifAssert(verifMember(c, x) == !ina, "complement-membership")

	// Equals agrees with extensional equality on canonical (sorted, duplicate-free) representations
	same := a.Inverse == b.Inverse && len(a.Set) == len(b.Set)
	if same {
		for i := range a.Set {
			if a.Set[i] != b.Set[i] {
				same = false
			}
		}
	}
	verifAssert(a.Equals(b) == same, "equals")
	if a.Equals(b) {
		verifAssert(ina == inb, "equals-implies-same-members")
	}
	bs := a.BitSet(verifC25U)
	verifAssert(bs.Get(x) == ina, "bitset-membership")
	verifAssert(a.Empty() == (len(a.Set) == 0 && !a.Inverse), "empty")
	if verifWitnessMode() {
		verifAssert(false, "witness")
	}
}
