package ls

// C23 (partial): language-server kernels and short sequential message histories.

import (
	"context"

	lsp "go.lsp.dev/protocol"
	"go.lsp.dev/uri"
	"go.uber.org/zap"
)

// resolvePosition against a reference walk in UTF-16 code units
func VerifC23ResolvePosition() {
	n := verifParam("n")
	buf := make([]byte, n)
	for i := range buf {
		buf[i] = nondetByte()
	}
	content := string(buf)
	line, ch := nondetUint32(), nondetUint32()
	verifAssume(line <= 3 && ch <= 5)
	got, err := resolvePosition(content, lsp.Position{Line: line, Character: ch})
	// reference: byte offset of (line, UTF-16 column), or an error when the position does not exist
	off, ok := 0, true
	l := uint32(0)
	for l < line && ok {
		found := false
		for off < n && !found {
			if buf[off] == '\n' {
				found = true
			}
			off++
		}
		if !found {
			ok = false
		}
		l++
	}
	units := uint32(0)
	for ok && units < ch {
		if off >= n {
			ok = false
			break
		}
		r, w := verifDecode(buf[off:])
		if r == '\n' {
			ok = false
			break
		}
		off += w
		units++
		if r > 0xffff {
			units++
			if units > ch {
				ok = false // inside a surrogate pair
			}
		}
	}
	verifAssert((err == nil) == ok, "position-exists-iff-reference-finds-it")
	if err == nil && ok {
		verifAssert(got == off, "offset-of-utf16-position")
	}
	if verifWitnessMode() {
		verifAssert(false, "witness")
	}
}

// verifDecode: a plain UTF-8 decoder (invalid bytes decode to U+FFFD, width 1)
func verifDecode(b []byte) (rune, int) {
	c := b[0]
	switch {
	case c < 0x80:
		return rune(c), 1
	case c >= 0xc2 && c <= 0xdf && len(b) >= 2 && b[1]&0xc0 == 0x80:
		return rune(c&0x1f)<<6 | rune(b[1]&0x3f), 2
	case c >= 0xe0 && c <= 0xef && len(b) >= 3 && b[1]&0xc0 == 0x80 && b[2]&0xc0 == 0x80:
		r := rune(c&0x0f)<<12 | rune(b[1]&0x3f)<<6 | rune(b[2]&0x3f)
		if r >= 0x800 && !(r >= 0xd800 && r <= 0xdfff) {
			return r, 3
		}
	case c >= 0xf0 && c <= 0xf4 && len(b) >= 4 && b[1]&0xc0 == 0x80 && b[2]&0xc0 == 0x80 && b[3]&0xc0 == 0x80:
		r := rune(c&0x07)<<18 | rune(b[1]&0x3f)<<12 | rune(b[2]&0x3f)<<6 | rune(b[3]&0x3f)
		if r >= 0x10000 && r <= 0x10ffff {
			return r, 4
		}
	}
	return 0xfffd, 1
}

type verifClient struct {
	lsp.Client
	published []*lsp.PublishDiagnosticsParams
}

func (c *verifClient) PublishDiagnostics(ctx context.Context, params *lsp.PublishDiagnosticsParams) error {
	c.published = append(c.published, params)
	return nil
}

var verifDocs = [...]string{
	"language g(go);\n:: lexer\nab: /a/\n",
	"language g(go);\n:: lexer\nab: /a/\ncd: /c/ ab\n",
	"language g(go);\n:: lexer\nab: /(/\n",
	"language g(go);\n:: lexer\nq: /é/ ab: /a/\n",
	"",
}

// VerifC23History: up to 3 messages (open / change / close / definition) over two documents, chosen freely.
func VerifC23History() {
	steps := verifParam("steps")
	s := NewServer(zap.NewNop())
	cl := &verifClient{}
	s.SetClient(cl)
	ctx := context.Background()
	uris := [...]lsp.DocumentURI{uri.File("/w/a.tm"), uri.File("/w/b.tm")}
	var content [2]string
	var open [2]bool
	version := int32(0)
	for st := 0; st < steps; st++ {
		d := verifChoice(2)
		op := verifChoice(4)
		if verifParam("utf16") == 1 && st == steps-1 {
			op = 4
		}
		version++
		before := len(cl.published)
		switch op {
		case 0: // open
			c := verifDocs[verifChoice(len(verifDocs))]
			err := s.DidOpen(ctx, &lsp.DidOpenTextDocumentParams{TextDocument: lsp.TextDocumentItem{URI: uris[d], Version: version, Text: c, LanguageID: "tm"}})
			verifAssert(err == nil, "open-succeeds")
			content[d], open[d] = c, true
			verifAssert(len(cl.published) == before+1 && cl.published[before].Version == uint32(version) && cl.published[before].URI == uris[d], "diagnostics-for-this-version")
			verifRanges(cl.published[len(cl.published)-1], c)
		case 1: // change: 0..2 content changes (full sync: the first one is the new text)
			nc := verifChoice(3)
			var changes []lsp.TextDocumentContentChangeEvent
			c := content[d]
			for k := 0; k < nc; k++ {
				t := verifDocs[verifChoice(len(verifDocs))]
				if k == 0 {
					c = t
				}
				changes = append(changes, lsp.TextDocumentContentChangeEvent{Text: t})
			}
			err := s.DidChange(ctx, &lsp.DidChangeTextDocumentParams{TextDocument: lsp.VersionedTextDocumentIdentifier{TextDocumentIdentifier: lsp.TextDocumentIdentifier{URI: uris[d]}, Version: version}, ContentChanges: changes})
			verifAssert(err == nil, "change-succeeds")
			if nc > 0 {
				content[d], open[d] = c, true
				verifAssert(len(cl.published) == before+1 && cl.published[before].Version == uint32(version) && cl.published[before].URI == uris[d], "diagnostics-for-this-version")
				verifRanges(cl.published[len(cl.published)-1], c)
			}
		case 2: // close
			err := s.DidClose(ctx, &lsp.DidCloseTextDocumentParams{TextDocument: lsp.TextDocumentIdentifier{URI: uris[d]}})
			verifAssert(err == nil, "close-succeeds")
			open[d] = false
		case 4: // definition on an identifier that follows a non-ASCII character on its line (known finding: byte columns)
			c := verifDocs[3]
			s.DidOpen(ctx, &lsp.DidOpenTextDocumentParams{TextDocument: lsp.TextDocumentItem{URI: uris[d], Version: version, Text: c, LanguageID: "tm"}})
			content[d], open[d] = c, true
			locs, err := s.Definition(ctx, &lsp.DefinitionParams{TextDocumentPositionParams: lsp.TextDocumentPositionParams{TextDocument: lsp.TextDocumentIdentifier{URI: uris[d]}, Position: lsp.Position{Line: 2, Character: 7}}})
			verifAssert(err == nil && len(locs) > 0, "definition-found")
			for _, loc := range locs {
				verifLocation(loc, content[d], "ab")
			}
		case 3: // definition at the first identifier of line 2 (0-based), column 0
			locs, err := s.Definition(ctx, &lsp.DefinitionParams{TextDocumentPositionParams: lsp.TextDocumentPositionParams{TextDocument: lsp.TextDocumentIdentifier{URI: uris[d]}, Position: lsp.Position{Line: 2, Character: 0}}})
			if !open[d] {
				verifAssert(err != nil, "definition-on-closed-document-fails")
			} else if err == nil {
				for _, loc := range locs {
					verifAssert(loc.URI == uris[d], "definition-in-the-same-document")
					verifLocation(loc, content[d], verifIdentAt(content[d], 2))
				}
			}
		}
	}
	if verifWitnessMode() {
		verifAssert(false, "witness")
	}
}

// Scripted histories: (a) a definition request answered before the document changes must not influence the answer after the
// change (the second text swaps two declarations); (b) diagnostics whose origin spans several lines (LALR conflicts on rules
// written over two lines) stay inside the document.
var verifSwap = [...]string{
	"language g(go);\n:: lexer\nab: /a/\ncd: /c/\n:: parser\ninput: ab cd;\n",
	"language g(go);\n:: lexer\ncd: /c/\nab: /a/\n:: parser\ninput: ab cd;\n",
}

const verifConflictDoc = "language g(go);\n:: lexer\nid: /a/\n:: parser\ninput: aa | bb;\naa: id\n      id;\nbb: id\n  id;\n"

func VerifC23Scripted() {
	s := NewServer(zap.NewNop())
	cl := &verifClient{}
	s.SetClient(cl)
	ctx := context.Background()
	u := uri.File("/w/a.tm")
	def := func(content string, char uint32, want string) {
		locs, err := s.Definition(ctx, &lsp.DefinitionParams{TextDocumentPositionParams: lsp.TextDocumentPositionParams{TextDocument: lsp.TextDocumentIdentifier{URI: u}, Position: lsp.Position{Line: 5, Character: char}}})
		verifAssert(err == nil && len(locs) == 1, "definition-found")
		for _, loc := range locs {
			verifAssert(loc.URI == u, "definition-in-the-same-document")
			verifLocation(loc, content, want)
		}
	}
	if verifChoice(2) == 1 {
		err := s.DidOpen(ctx, &lsp.DidOpenTextDocumentParams{TextDocument: lsp.TextDocumentItem{URI: u, Version: 1, Text: verifConflictDoc, LanguageID: "tm"}})
		verifAssert(err == nil && len(cl.published) == 1, "open-succeeds")
		if len(cl.published) == 1 {
			verifAssert(len(cl.published[0].Diagnostics) > 0, "conflict-is-reported")
			verifRanges(cl.published[0], verifConflictDoc)
		}
		return
	}
	first := verifChoice(2)
	a, b := verifSwap[first], verifSwap[1-first]
	err := s.DidOpen(ctx, &lsp.DidOpenTextDocumentParams{TextDocument: lsp.TextDocumentItem{URI: u, Version: 1, Text: a, LanguageID: "tm"}})
	verifAssert(err == nil, "open-succeeds")
	if verifChoice(2) == 1 {
		def(a, 7, "ab")
	}
	if verifChoice(2) == 1 {
		err = s.DidChange(ctx, &lsp.DidChangeTextDocumentParams{TextDocument: lsp.VersionedTextDocumentIdentifier{TextDocumentIdentifier: lsp.TextDocumentIdentifier{URI: u}, Version: 2}, ContentChanges: []lsp.TextDocumentContentChangeEvent{{Text: b}}})
	} else {
		err = s.DidOpen(ctx, &lsp.DidOpenTextDocumentParams{TextDocument: lsp.TextDocumentItem{URI: u, Version: 2, Text: b, LanguageID: "tm"}})
	}
	verifAssert(err == nil, "change-succeeds")
	if verifChoice(2) == 1 {
		def(b, 7, "ab")
	} else {
		def(b, 10, "cd")
	}
	if verifWitnessMode() {
		verifAssert(false, "witness")
	}
}

// verifUnits: number of UTF-16 code units of s
func verifUnits(s string) int {
	u := 0
	for _, r := range s {
		u++
		if r > 0xffff {
			u++
		}
	}
	return u
}

func verifLineStart(content string, line int) (int, bool) {
	off := 0
	for l := 0; l < line; l++ {
		i := 0
		for off+i < len(content) && content[off+i] != '\n' {
			i++
		}
		if off+i >= len(content) {
			return 0, false
		}
		off += i + 1
	}
	return off, true
}

// published ranges lie inside the document, expressed in UTF-16 units (start and end each inside their own line)
func verifRanges(p *lsp.PublishDiagnosticsParams, content string) {
	for _, dg := range p.Diagnostics {
		su, ok1 := verifLineUnits(content, int(dg.Range.Start.Line))
		eu, ok2 := verifLineUnits(content, int(dg.Range.End.Line))
		verifAssert(ok1 && ok2, "diagnostic-line-exists")
		if !ok1 || !ok2 {
			continue
		}
		ordered := dg.Range.Start.Line < dg.Range.End.Line || dg.Range.Start.Line == dg.Range.End.Line && dg.Range.Start.Character <= dg.Range.End.Character
		verifAssert(int(dg.Range.Start.Character) <= su && int(dg.Range.End.Character) <= eu && ordered, "diagnostic-range-inside-the-line-in-utf16-units")
	}
}

// verifLineUnits: length of the given line in UTF-16 code units
func verifLineUnits(content string, line int) (int, bool) {
	start, ok := verifLineStart(content, line)
	if !ok {
		return 0, false
	}
	end := start
	for end < len(content) && content[end] != '\n' {
		end++
	}
	return verifUnits(content[start:end]), true
}

// verifIdentAt: the identifier at the start of the given line
func verifIdentAt(content string, line int) string {
	start, ok := verifLineStart(content, line)
	if !ok {
		return ""
	}
	end := start
	for end < len(content) && content[end] >= 'a' && content[end] <= 'z' {
		end++
	}
	return content[start:end]
}

// a definition location names an identifier: its UTF-16 columns must delimit exactly that text
func verifLocation(loc lsp.Location, content string, want string) {
	start, ok := verifLineStart(content, int(loc.Range.Start.Line))
	verifAssert(ok, "location-line-exists")
	if !ok {
		return
	}
	end := start
	for end < len(content) && content[end] != '\n' {
		end++
	}
	line := content[start:end]
	// convert UTF-16 columns to byte offsets
	b0, b1, u := -1, -1, 0
	for i, r := range line {
		if u == int(loc.Range.Start.Character) {
			b0 = i
		}
		if u == int(loc.Range.End.Character) {
			b1 = i
		}
		u++
		if r > 0xffff {
			u++
		}
	}
	if u == int(loc.Range.End.Character) {
		b1 = len(line)
	}
	if u == int(loc.Range.Start.Character) {
		b0 = len(line)
	}
	verifAssert(b0 >= 0 && b1 >= b0 && line[b0:b1] == want, "location-delimits-the-identifier-in-utf16-units")
}
