package lalr

// C04 (kernel): resolvePrec and ruleAction on a symbolic rule, lookahead terminal and precedence table.
// Terminals are 1..5 (0 is end of input), nonterminals 6..7. The rule's right-hand side, its %prec
// terminal, the lookahead, the precedence group of every terminal and the associativity of every group
// are solver variables.

const verifC04T = 6

func VerifC04Prec() {
	k := verifParam("k")   // length of the right-hand side
	ng := verifParam("ng") // number of precedence groups
	rhs := make([]Sym, k)
	for i := range rhs {
		s := nondetInt()
		verifAssume(s >= -2 && s < verifC04T+2 && s != 0) // negative values are state markers (.name), which occupy no input
		rhs[i] = Sym(s)
	}
	prec := nondetInt()
	verifAssume(prec >= 0 && prec < verifC04T)
	groups := make([]Precedence, ng)
	assoc := make([]int, ng)
	for g := range groups {
		a := nondetInt()
		verifAssume(a >= 0 && a <= 2)
		assoc[g] = a
		groups[g].Associativity = Associativity(a)
	}
	// group of each terminal: -1 = not declared
	grp := make([]int, verifC04T)
	pg := make(map[Sym]int)
	for t := 1; t < verifC04T; t++ {
		g := nondetInt()
		verifAssume(g >= -1 && g < ng)
		grp[t] = g
		if g >= 0 {
			pg[Sym(t)] = g
		}
	}
	grp[0] = -1
	term := nondetInt()
	verifAssume(term >= 0 && term < verifC04T)
	c := &compiler{grammar: &Grammar{Terminals: verifC04T, Rules: []Rule{{LHS: verifC04T, RHS: rhs, Precedence: Sym(prec)}}, Precedence: groups}, precGroup: pg}
	c.planner.index = []int{-1}
	c.planner.ruleBase = 1

	// ---- oracle, from the documented rules ----
	rp := prec
	if rp == 0 {
		for i := 0; i < k; i++ { // last terminal of the rule
			if s := int(rhs[i]); s > 0 && s < verifC04T {
				rp = s
			}
		}
	}
	want := conflict
	if rp != 0 && term != 0 {
		g1, g2 := -1, -1
		for t := 1; t < verifC04T; t++ {
			g1 = verifIte(t == rp, grp[t], g1)
			g2 = verifIte(t == term, grp[t], g2)
		}
		if g1 >= 0 && g2 >= 0 {
			switch {
			case g1 > g2: // later groups bind tighter: the rule wins
				want = doReduce
			case g1 < g2:
				want = doShift
			default:
				as := 0
				for g := 0; g < ng; g++ {
					as = verifIte(g == g2, assoc[g], as)
				}
				switch as {
				case 0:
					want = doReduce
				case 1:
					want = doShift
				default:
					want = doError
				}
			}
		}
	}
	got := c.resolvePrec(0, Sym(term))
	verifAssert(got == want, "resolution-as-documented")

	// the action recorded for a shift/reduce choice
	var b conflictBuilder
	act := c.ruleAction(-1, Sym(term), 0, &b)
	switch want {
	case doReduce:
		verifAssert(act == 0, "reduce-wins")
	case doShift:
		verifAssert(act == -1, "shift-wins")
	case doError:
		verifAssert(act == -3, "nonassoc-is-an-error")
	default:
		verifAssert(act == -1, "unresolved-defaults-to-shift")
		verifAssert(b.hasConflict(Sym(term)), "unresolved-is-reported")
	}
	if want != conflict {
		verifAssert(!b.hasConflict(Sym(term)), "resolved-is-not-a-conflict")
	}
	// reduce/reduce: an unresolved choice keeps the earlier rule (the action already in the cell)
	var b2 conflictBuilder
	c.grammar.Rules = append(c.grammar.Rules, Rule{LHS: verifC04T, RHS: rhs})
	c.planner.index = []int{-1, -1}
	c.planner.ruleBase = 2
	act2 := c.ruleAction(0, Sym(term), 1, &b2)
	verifAssert(act2 == 0, "reduce-reduce-keeps-earlier-rule")
	verifAssert(b2.hasConflict(Sym(term)), "reduce-reduce-is-reported")
	if verifWitnessMode() {
		verifAssert(false, "witness")
	}
}
