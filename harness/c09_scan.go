package lex

// C09: lex.Tables.Scan on a symbolic text against the denotational semantics of the rules' regular
// expressions (longest match, rule priority, invalid token = longest viable prefix).
// The rule sets are compiled by the real ParseRegexp / Compile inside the executor.

import (
	"unicode/utf8"

	"github.com/inspirer/textmapper/status"
)

type verifNode struct{ name string }

func (n verifNode) SourceRange() status.SourceRange { return status.SourceRange{Filename: n.name} }

type verifResolver map[string]*Pattern

func (r verifResolver) Resolve(name string) *Pattern { return r[name] }

type verifRule struct {
	pat    string
	action int
	prec   int
	sc     []int // start conditions (nil = {0})
}

type verifLexSet struct {
	rules []verifRule
	named map[string]string
	bytes bool
	fold  bool
	nobt  bool // compile with allowBacktracking=false
}

var verifLexSets = []verifLexSet{
	0:  {rules: []verifRule{{pat: `a`, action: 1}}},
	1:  {rules: []verifRule{{pat: `[a-z]+`, action: 1}}},
	2:  {rules: []verifRule{{pat: `[ \t]+`, action: 0}, {pat: `[a-zA-Z_][a-zA-Z_0-9]*`, action: 2}}},
	3:  {rules: []verifRule{{pat: `(abcd?)`, action: 1}, {pat: `ab`, action: 2}}},
	4:  {rules: []verifRule{{pat: `aaaa`, action: 1}, {pat: `a`, action: 2}}},
	5:  {rules: []verifRule{{pat: `keyword`, action: 1}, {pat: `[a-z]+`, action: 2, prec: -1}, {pat: `[a-zA-Z]+`, action: 3, prec: -2}}},
	6:  {rules: []verifRule{{pat: `-?(0|[1-9][0-9]*)`, action: 1}}},
	7:  {rules: []verifRule{{pat: `[a-z](-*[a-z])*`, action: 1}, {pat: `test(foo)?-+>`, action: 2}}},
	8:  {rules: []verifRule{{pat: `ab|a(bc+)?`, action: 1}}},
	9:  {rules: []verifRule{{pat: `αβγ?`, action: 1}}, bytes: true},
	10: {rules: []verifRule{{pat: `αβγ?`, action: 1}, {pat: `{eoi}`, action: 8}}, bytes: true},
	11: {rules: []verifRule{{pat: `a{2,3}`, action: 1}, {pat: `a{1,2}b`, action: 2}, {pat: `b{2}`, action: 3}}},
	12: {rules: []verifRule{{pat: `{id}`, action: 1}, {pat: `{id}\({ws}\)`, action: 2}, {pat: `{ws}`, action: 3}}, named: map[string]string{"id": `[a-c]+`, "ws": `[ ]+x?`}},
	13: {rules: []verifRule{{pat: `if`, action: 1}, {pat: `[a-z]+`, action: 2, prec: -1}}, fold: true},
	14: {rules: []verifRule{{pat: `a`, action: 1, sc: []int{0}}, {pat: `b`, action: 2, sc: []int{1}}, {pat: `ab?`, action: 3, sc: []int{1}}, {pat: `c`, action: 4, sc: []int{0, 1}}}},
	15: {rules: []verifRule{{pat: `[\x80-\xff]+`, action: 1}, {pat: `[^\x80-\xffa]`, action: 2}, {pat: `a\xe9?`, action: 3}}, bytes: true},
	16: {rules: []verifRule{{pat: `[α-ω]+`, action: 1}, {pat: `é|e`, action: 2}, {pat: `.`, action: 3, prec: -1}}},
	17: {rules: []verifRule{{pat: `\/\*([^*]|\*+[^*\/])*\*+\/`, action: 1}, {pat: `\/`, action: 2}, {pat: `\*`, action: 3}}},
	18: {rules: []verifRule{{pat: `abc{eoi}`, action: 4, prec: 1}, {pat: `abc`, action: 5}, {pat: `[a-c]`, action: 6, prec: -1}}},
	19: {rules: []verifRule{{pat: `"([^"\\]|\\.)*"`, action: 1}, {pat: `[^"]`, action: 2}}},
	20: {rules: []verifRule{{pat: `x|yz?|(xy)+z`, action: 1}, {pat: `(x|y)*w`, action: 2}}},
	21: {rules: []verifRule{{pat: `ab`, action: 1}, {pat: `ab`, action: 2}}},                 // identical rules: Compile must fail
	22: {rules: []verifRule{{pat: `ab`, action: 1}, {pat: `abcd`, action: 2}}, nobt: true},   // needs backtracking: Compile must fail
	23: {rules: []verifRule{{pat: `[a-b]*c`, action: 1}, {pat: `a`, action: 2}, {pat: `b+`, action: 3}}},
	24: {rules: []verifRule{{pat: `ask`, action: 1}, {pat: `[j-l]+`, action: 2, prec: -1}, {pat: `[r-t]`, action: 3, prec: -2}}, bytes: true, fold: true}, // byte mode + case folding (k/K, s/S have non-ASCII fold partners)
	25: {rules: []verifRule{{pat: `a`, action: 1}, {pat: `b`, action: 2}, {pat: `[ab]xy`, action: 3}}},                                                      // two accepting states entering the same non-accepting state
	26: {rules: []verifRule{{pat: `[0-9]+`, action: 2}, {pat: `[0-9]+\.[0-9]+`, action: 3}}},
}

func verifCompileSet(set verifLexSet) (*Tables, []*Rule, error) {
	opts := CharsetOptions{ScanBytes: set.bytes, Fold: set.fold}
	res := verifResolver{}
	for name, text := range set.named {
		re, err := ParseRegexp(text, opts)
		if err != nil {
			return nil, nil, err
		}
		res[name] = &Pattern{Name: name, RE: re, Text: text, Origin: verifNode{name}}
	}
	var rules []*Rule
	for i, r := range set.rules {
		re, err := ParseRegexp(r.pat, opts)
		if err != nil {
			return nil, nil, err
		}
		sc := r.sc
		if sc == nil {
			sc = []int{0}
		}
		name := string([]byte{'r', byte('0' + i/10), byte('0' + i%10)})
		rules = append(rules, &Rule{Pattern: &Pattern{Name: name, RE: re, Text: r.pat, Origin: verifNode{name}}, Resolver: res,
			StartConditions: sc, Precedence: r.prec, Action: r.action, Origin: verifNode{name}})
	}
	t, err := Compile(rules, set.bytes, !set.nobt)
	return t, rules, err
}

// ---- reference semantics, branch-free on symbolic data: every function returns 0/1 ----

type verifText struct {
	r   []rune // decoded input symbols (bytes in byte mode)
	off []int  // byte offset of each symbol, plus the total length at the end
	n   int
}

func verifInSet(cs charset, r rune) int {
	in := 0
	for i := 0; i+1 < len(cs); i += 2 {
		in |= verifB2I(cs[i] <= r) & verifB2I(r <= cs[i+1])
	}
	return in
}

func verifLitSyms(re *Regexp) []rune {
	var out []rune
	if re.op == opBytesLiteral {
		for i := 0; i < len(re.text); i++ {
			out = append(out, rune(re.text[i]))
		}
		return out
	}
	for _, r := range re.text {
		out = append(out, r)
	}
	return out
}

// verifMatch: does re match exactly symbols [i,j) of t?
func verifMatch(re *Regexp, res Resolver, t *verifText, i, j int) int {
	switch re.op {
	case opLiteral, opBytesLiteral:
		lit := verifLitSyms(re)
		if len(lit) != j-i {
			return 0
		}
		ok := 1
		for k, r := range lit {
			ok &= verifB2I(t.r[i+k] == r)
		}
		return ok
	case opCharClass:
		if j != i+1 {
			return 0
		}
		return verifInSet(re.charset, t.r[i])
	case opExternal:
		if re.text == "eoi" {
			return verifB2I(i == j && j == t.n)
		}
		return verifMatch(res.Resolve(re.text).RE, res, t, i, j)
	case opAlternate:
		m := 0
		for _, s := range re.sub {
			m |= verifMatch(s, res, t, i, j)
		}
		return m
	case opConcat:
		// reach[p]: the first k subs match [i,p)
		reach := make([]int, j+1)
		reach[i] = 1
		for _, s := range re.sub {
			next := make([]int, j+1)
			for p := i; p <= j; p++ {
				if reach[p] == 0 {
					continue
				}
				for q := p; q <= j; q++ {
					next[q] |= reach[p] & verifMatch(s, res, t, p, q)
				}
			}
			reach = next
		}
		return reach[j]
	case opRepeat:
		sub := re.sub[0]
		// copies consuming at least one symbol each; empty copies pad up to min for free when sub matches the empty string
		emptyOK := verifMatch(sub, res, t, i, i)
		reach := make([]int, j+1)
		reach[i] = 1
		m := 0
		for c := 0; c <= j-i; c++ {
			if re.max >= 0 && c > re.max {
				break
			}
			if c >= re.min {
				m |= reach[j]
			} else {
				m |= reach[j] & emptyOK
			}
			next := make([]int, j+1)
			for p := i; p <= j; p++ {
				if reach[p] == 0 {
					continue
				}
				for q := p + 1; q <= j; q++ {
					next[q] |= reach[p] & verifMatch(sub, res, t, p, q)
				}
			}
			reach = next
		}
		return m
	}
	return 0
}

// verifPrefix: is [i,j) a prefix of some string matched by re (every sub-language of the corpus is non-empty)?
func verifPrefix(re *Regexp, res Resolver, t *verifText, i, j int) int {
	switch re.op {
	case opLiteral, opBytesLiteral:
		lit := verifLitSyms(re)
		if j-i > len(lit) {
			return 0
		}
		ok := 1
		for k := 0; k < j-i; k++ {
			ok &= verifB2I(t.r[i+k] == lit[k])
		}
		return ok
	case opCharClass:
		if j == i {
			return 1
		}
		if j != i+1 {
			return 0
		}
		return verifInSet(re.charset, t.r[i])
	case opExternal:
		if re.text == "eoi" {
			return verifB2I(i == j)
		}
		return verifPrefix(res.Resolve(re.text).RE, res, t, i, j)
	case opAlternate:
		m := 0
		for _, s := range re.sub {
			m |= verifPrefix(s, res, t, i, j)
		}
		return m
	case opConcat:
		reach := make([]int, j+1)
		reach[i] = 1
		m := 0
		for _, s := range re.sub {
			next := make([]int, j+1)
			for p := i; p <= j; p++ {
				if reach[p] == 0 {
					continue
				}
				m |= reach[p] & verifPrefix(s, res, t, p, j)
				for q := p; q <= j; q++ {
					next[q] |= reach[p] & verifMatch(s, res, t, p, q)
				}
			}
			reach = next
		}
		return m | reach[j]
	case opRepeat:
		sub := re.sub[0]
		if re.max == 0 {
			return verifB2I(i == j)
		}
		reach := make([]int, j+1)
		reach[i] = 1
		m := 0
		for c := 0; c <= j-i; c++ {
			if re.max >= 0 && c > re.max {
				break
			}
			m |= reach[j] // c copies matched everything: extendable (or complete)
			if re.max < 0 || c+1 <= re.max {
				for p := i; p <= j; p++ {
					m |= reach[p] & verifPrefix(sub, res, t, p, j)
				}
			}
			next := make([]int, j+1)
			for p := i; p <= j; p++ {
				if reach[p] == 0 {
					continue
				}
				for q := p + 1; q <= j; q++ {
					next[q] |= reach[p] & verifMatch(sub, res, t, p, q)
				}
			}
			reach = next
		}
		return m
	}
	return 0
}

func verifActive(r *Rule, sc int) bool {
	for _, s := range r.StartConditions {
		if s == sc {
			return true
		}
	}
	return false
}

func VerifC09Scan() {
	set := verifLexSets[verifParam("set")]
	sc := verifParam("sc")
	n := verifParam("n")
	tables, rules, err := verifCompileSet(set)
	if verifParam("wanterr") == 1 {
		verifAssert(err != nil, "compile-rejects")
		return
	}
	verifAssert(err == nil, "compile-accepts")
	if err != nil {
		return
	}
	buf := make([]byte, n)
	for i := range buf {
		buf[i] = nondetByte()
		if verifParam("ascii") == 1 {
			verifAssume(buf[i] < 0x80)
		}
	}
	text := string(buf)
	size, action := tables.Scan(sc, text)

	// decode the text into symbols (concrete widths on each path)
	t := &verifText{}
	if set.bytes {
		for i := 0; i < n; i++ {
			t.r = append(t.r, rune(buf[i]))
			t.off = append(t.off, i)
		}
	} else {
		for i := 0; i < n; {
			r, w := utf8.DecodeRuneInString(text[i:])
			t.r = append(t.r, r)
			t.off = append(t.off, i)
			i += w
		}
	}
	t.n = len(t.r)
	t.off = append(t.off, n)

	// expected result
	wantSize, wantAction := 0, 0
	found := 0
	for l := t.n; l >= 0; l-- {
		// best rule matching the first l symbols (l = 0 can only match through {eoi}: Compile rejects rules accepting the empty text)
		bestPrec, bestAct, any := 0, 0, 0
		for _, r := range rules {
			if !verifActive(r, sc) {
				continue
			}
			m := verifMatch(r.Pattern.RE, r.Resolver, t, 0, l)
			better := m & (verifB2I(any == 0) | verifB2I(r.Precedence > bestPrec))
			bestPrec = verifIte(better == 1, r.Precedence, bestPrec)
			bestAct = verifIte(better == 1, r.Action, bestAct)
			any |= m
		}
		take := any & (1 - found)
		wantSize = verifIte(take == 1, t.off[l], wantSize)
		wantAction = verifIte(take == 1, bestAct, wantAction)
		found |= any
	}
	// no match: invalid token spanning the longest viable prefix
	viable := 0
	for l := t.n; l >= 0; l-- {
		v := 0
		for _, r := range rules {
			if verifActive(r, sc) {
				v |= verifPrefix(r.Pattern.RE, r.Resolver, t, 0, l)
			}
		}
		take := v & (1 - viable)
		wantSize = verifIte(found == 0 && take == 1, t.off[l], wantSize)
		viable |= v
	}
	verifAssert(size == wantSize, "scan-size")
	verifAssert(action == wantAction, "scan-action")
	if verifWitnessMode() {
		verifAssert(false, "witness")
	}
}
