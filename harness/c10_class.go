package lex

// C10 (classes): charset kernels on symbolic range lists, bracket classes with symbolic end points,
// predefined classes and case folding, each against membership semantics for a symbolic probe rune
// ranging over every code point.

import "unicode"

func verifRanges(n int, max rune) []rune {
	r := make([]rune, 0, 2*n)
	for i := 0; i < n; i++ {
		lo, hi := nondetRune(), nondetRune()
		verifAssume(0 <= lo && lo <= hi && hi <= max)
		r = append(r, lo, hi)
	}
	return r
}

func verifInRaw(r []rune, x rune) bool {
	in := false
	for i := 0; i+1 < len(r); i += 2 {
		if r[i] <= x && x <= r[i+1] {
			in = true
		}
	}
	return in
}

func verifMax() (rune, CharsetOptions) {
	if verifParam("bytes") == 1 {
		return 255, CharsetOptions{ScanBytes: true}
	}
	return unicode.MaxRune, CharsetOptions{}
}

// newCharset / invert / subtract / intersect on symbolic range lists
func VerifC10Charset() {
	max, opts := verifMax()
	na, nb := verifParam("na"), verifParam("nb")
	op := verifParam("op") // 0 newCharset, 1 invert, 2 subtract, 3 intersect
	ra := verifRanges(na, max)
	rb := verifRanges(nb, max)
	x := nondetRune()
	verifAssume(0 <= x && x <= max)
	inA, inB := verifInRaw(ra, x), verifInRaw(rb, x)
	a := newCharset(ra)
	verifAssert(verifWellFormed(a, max), "newCharset-wellformed")
	verifAssert(verifIn(a, x) == inA, "newCharset-membership")
	switch op {
	case 1:
		a.invert(opts)
		verifAssert(verifWellFormed(a, max), "invert-wellformed")
		verifAssert(verifIn(a, x) == !inA, "invert-membership")
	case 2:
		b := newCharset(rb)
		bc := append(charset(nil), b...)
		a.subtract(b)
		verifAssert(verifWellFormed(a, max), "subtract-wellformed")
		verifAssert(verifIn(a, x) == (inA && !inB), "subtract-membership")
		same := len(b) == len(bc)
		for i := range bc {
			if i < len(b) && b[i] != bc[i] {
				same = false
			}
		}
		verifAssert(same, "subtract-leaves-operand")
	case 3:
		b := newCharset(rb)
		c := intersect(a, b)
		verifAssert(verifWellFormed(c, max), "intersect-wellformed")
		verifAssert(verifIn(c, x) == (inA && inB), "intersect-membership")
	}
	if verifWitnessMode() {
		verifAssert(false, "witness")
	}
}

func verifPlain(b byte) bool {
	return b >= '0' && b <= '9' || b >= 'a' && b <= 'z' || b >= 'A' && b <= 'Z' || b == '_' || b == ' ' || b == '!' || b == '#' || b == '%' || b == '&' || b == ',' || b == ';' || b == '<' || b == '=' || b == '>' || b == '@' || b == '~' || b == '"' || b == '\''
}

// bracket classes [lo-hi], [^lo-hi], [lo-hic], [lo-hi-[c-d]], [^lo-hi-[c-d]] with symbolic end points
func VerifC10Class() {
	max, opts := verifMax()
	form := verifParam("form") // 0: [lo-hi]  1: [lo-hi c]  2: [lo-hi-[c-d]]  3: [a-bc-d]
	neg := verifParam("neg") == 1
	lo, hi, c, d := nondetByte(), nondetByte(), nondetByte(), nondetByte()
	verifAssume(verifPlain(lo) && verifPlain(hi) && verifPlain(c) && verifPlain(d))
	src := []byte{'['}
	if neg {
		src = append(src, '^')
	}
	src = append(src, lo, '-', hi)
	switch form {
	case 1:
		src = append(src, c)
	case 2:
		src = append(src, '-', '[', c, '-', d, ']')
	case 3:
		src = append(src, c, '-', d)
	}
	src = append(src, ']')
	x := nondetRune()
	verifAssume(0 <= x && x <= unicode.MaxRune)
	re, err := ParseRegexp(string(src), opts)
	ok := lo <= hi
	if form >= 2 {
		ok = ok && c <= d
	}
	verifAssert((err == nil) == ok, "class-accept-iff-ranges-ordered")
	if err != nil {
		verifErrInside(err, len(src), "class-error-inside-pattern")
	}
	if err == nil && ok {
		want := rune(lo) <= x && x <= rune(hi)
		switch form {
		case 1:
			want = want || x == rune(c)
		case 2:
			want = want && !(rune(c) <= x && x <= rune(d))
		case 3:
			want = want || rune(c) <= x && x <= rune(d)
		}
		if neg {
			want = !want
		}
		want = want && x <= max
		verifAssert(re.op == opCharClass, "class-is-charclass")
		verifAssert(verifWellFormed(re.charset, max), "class-wellformed")
		verifAssert(verifIn(re.charset, x) == want, "class-membership")
	}
	if verifWitnessMode() {
		verifAssert(false, "witness")
	}
}

// predefined classes: \d \D \w \W \s \S and '.', standalone and inside [...] / [^...]
func VerifC10Builtin() {
	max, opts := verifMax()
	which := verifParam("which")
	ctx := verifParam("ctx") // 0 standalone, 1 [..], 2 [^..]
	pat := [...]string{`\d`, `\D`, `\w`, `\W`, `\s`, `\S`, `.`}[which]
	switch ctx {
	case 1:
		pat = "[" + pat + "]"
	case 2:
		pat = "[^" + pat + "]"
	}
	x := nondetRune()
	verifAssume(0 <= x && x <= unicode.MaxRune)
	re, err := ParseRegexp(pat, opts)
	verifAssert(err == nil, "builtin-parses")
	if err != nil {
		return
	}
	digit := x >= '0' && x <= '9'
	word := digit || x >= 'a' && x <= 'z' || x >= 'A' && x <= 'Z' || x == '_'
	space := x == ' ' || x == '\t' || x == '\n' || x == '\v' || x == '\f' || x == '\r'
	want := [...]bool{digit, !digit, word, !word, space, !space, x != '\n'}[which]
	if ctx == 2 {
		want = !want
	}
	want = want && x <= max
	verifAssert(re.op == opCharClass, "builtin-is-charclass")
	verifAssert(verifWellFormed(re.charset, max), "builtin-wellformed")
	verifAssert(verifIn(re.charset, x) == want, "builtin-membership")
	if verifWitnessMode() {
		verifAssert(false, "witness")
	}
}

func verifSwapCase(b byte) byte {
	if b >= 'a' && b <= 'z' {
		return b - 32
	}
	if b >= 'A' && b <= 'Z' {
		return b + 32
	}
	return b
}

// case-insensitive literals and classes: (?i)c and (?i)[lo-hi] for ASCII letters; the probe ranges over all code points.
func VerifC10Fold() {
	max, opts := verifMax()
	form := verifParam("form") // 0: (?i)c   1: (?i)[lo-hi]  2: option Fold instead of the flag, single letter
	lo := byte(verifChoice(52))
	if lo < 26 {
		lo += 'a'
	} else {
		lo += 'A' - 26
	}
	hi := lo
	var pat string
	switch form {
	case 0:
		pat = "(?i)" + string([]byte{lo})
	case 1:
		span := byte(verifChoice(3))
		hi = lo + span
		if !(hi >= 'a' && hi <= 'z' || hi >= 'A' && hi <= 'Z') {
			return
		}
		pat = "(?i)[" + string([]byte{lo, '-', hi}) + "]"
	case 2:
		pat = string([]byte{lo})
		opts.Fold = true
	}
	x := nondetRune()
	verifAssume(0 <= x && x <= unicode.MaxRune)
	re, err := ParseRegexp(pat, opts)
	verifAssert(err == nil, "fold-parses")
	if err != nil {
		return
	}
	want := false
	for b := lo; b <= hi; b++ {
		if x == rune(b) || x == rune(verifSwapCase(b)) {
			want = true
		}
		if !opts.ScanBytes {
			// the two non-ASCII simple case foldings of ASCII letters: KELVIN SIGN and LATIN SMALL LETTER LONG S
			if (b == 'k' || b == 'K') && x == 0x212A {
				want = true
			}
			if (b == 's' || b == 'S') && x == 0x17F {
				want = true
			}
		}
	}
	want = want && x <= max
	verifAssert(re.op == opCharClass, "fold-is-charclass")
	verifAssert(verifWellFormed(re.charset, max), "fold-wellformed")
	verifAssert(verifIn(re.charset, x) == want, "fold-membership")
	if verifWitnessMode() {
		verifAssert(false, "witness")
	}
}

func verifHexDigit(v byte) byte {
	if v < 10 {
		return '0' + v
	}
	return 'a' + v - 10
}

// byte mode never folds bytes >= 0x80: (?i)[\xHH] and (?i)\xHH with a symbolic high byte
func VerifC10FoldHigh() {
	form := verifParam("form") // 0: (?i)[\xHH]  1: (?i)\xHH standalone  2: (?i)[\xHH-\xKK] with KK = HH+1
	b := nondetByte()
	verifAssume(b >= 0x80)
	if form == 2 {
		verifAssume(b < 0xff)
	}
	esc := func(v byte) []byte { return []byte{'\\', 'x', verifHexDigit(v >> 4), verifHexDigit(v & 15)} }
	pat := []byte("(?i)")
	switch form {
	case 0:
		pat = append(pat, '[')
		pat = append(pat, esc(b)...)
		pat = append(pat, ']')
	case 1:
		pat = append(pat, esc(b)...)
	case 2:
		pat = append(pat, '[')
		pat = append(pat, esc(b)...)
		pat = append(pat, '-')
		pat = append(pat, esc(b+1)...)
		pat = append(pat, ']')
	}
	x := nondetRune()
	verifAssume(0 <= x && x <= unicode.MaxRune)
	re, err := ParseRegexp(string(pat), CharsetOptions{ScanBytes: true})
	verifAssert(err == nil, "foldhigh-parses")
	if err != nil {
		return
	}
	switch form {
	case 0:
		verifAssert(re.op == opCharClass && verifIn(re.charset, x) == (x == rune(b)), "foldhigh-class-unchanged")
	case 1:
		verifAssert(re.op == opBytesLiteral && re.text == string(rune(b)), "foldhigh-literal-unchanged")
	case 2:
		verifAssert(re.op == opCharClass && verifIn(re.charset, x) == (x == rune(b) || x == rune(b)+1), "foldhigh-class-unchanged")
	}
	if verifWitnessMode() {
		verifAssert(false, "witness")
	}
}

// quantifier binding: a run of plain literal characters followed by a quantifier applies the quantifier to the last character only
func VerifC10Quant() {
	nl := verifParam("nl")   // number of literal characters (1..3)
	form := verifParam("form") // 0 * 1 + 2 ? 3 {d} 4 {d,} 5 {d,e} 6 {dd}
	bytesMode := verifParam("bytes") == 1
	lit := make([]byte, nl)
	for i := range lit {
		lit[i] = nondetByte()
		verifAssume(lit[i] >= 'a' && lit[i] <= 'c')
	}
	d, e := nondetByte(), nondetByte()
	verifAssume(d >= '0' && d <= '9' && e >= '0' && e <= '9')
	pat := append([]byte(nil), lit...)
	min, max := 0, -1
	switch form {
	case 1:
		min = 1
	case 2:
		max = 1
	}
	switch form {
	case 0:
		pat = append(pat, '*')
	case 1:
		pat = append(pat, '+')
	case 2:
		pat = append(pat, '?')
	case 3:
		pat = append(pat, '{', d, '}')
		min, max = int(d-'0'), int(d-'0')
	case 4:
		pat = append(pat, '{', d, ',', '}')
		min, max = int(d-'0'), -1
	case 5:
		pat = append(pat, '{', d, ',', e, '}')
		min, max = int(d-'0'), int(e-'0')
	case 6:
		pat = append(pat, '{', d, e, '}')
		min = int(d-'0')*10 + int(e-'0')
		max = min
	}
	re, err := ParseRegexp(string(pat), CharsetOptions{ScanBytes: bytesMode})
	wantErr := form == 5 && e < d
	verifAssert((err != nil) == wantErr, "quant-accept-iff-ordered")
	if err != nil {
		verifErrInside(err, len(pat), "quant-error-inside-pattern")
		return
	}
	lop := literalOp(bytesMode)
	rep := re
	if nl > 1 {
		ok := re.op == opConcat && len(re.sub) == 2 && re.sub[0].op == lop && re.sub[0].text == string(lit[:nl-1])
		if max == 0 {
			// x{0} matches only the empty string: the parser may drop it from the concatenation
			ok = ok || (re.op == lop && re.text == string(lit[:nl-1]))
			verifAssert(ok, "quant-prefix-literal")
			return
		}
		verifAssert(ok, "quant-prefix-literal")
		if !ok {
			return
		}
		rep = re.sub[1]
	} else if max == 0 {
		return
	}
	verifAssert(rep.op == opRepeat && len(rep.sub) == 1, "quant-is-repeat")
	if rep.op == opRepeat && len(rep.sub) == 1 {
		verifAssert(rep.min == min && rep.max == max, "quant-bounds")
		verifAssert(rep.sub[0].op == lop && rep.sub[0].text == string(lit[nl-1:]), "quant-binds-last-character")
	}
	if verifWitnessMode() {
		verifAssert(false, "witness")
	}
}
