package js

// C29 on the shipped JavaScript parser: an error-dense source (a recoverable syntax error in every statement), the context is
// cancelled once the error handler has been called c times, c being a solver variable.

import (
	"context"
	"errors"
	"time"
)

var verifJsCancelled = errors.New("verif: context cancelled")

type verifJsCtx struct {
	reports      *int
	c            int
	closed, open chan struct{}
}

func (v *verifJsCtx) Deadline() (time.Time, bool) { return time.Time{}, false }
func (v *verifJsCtx) Value(key any) any           { return nil }
func (v *verifJsCtx) Done() <-chan struct{} {
	if *v.reports >= v.c {
		return v.closed
	}
	return v.open
}
func (v *verifJsCtx) Err() error {
	if *v.reports >= v.c {
		return verifJsCancelled
	}
	return nil
}

var _ context.Context = (*verifJsCtx)(nil)

func VerifC29Js() {
	n := verifParam("n")
	stmt := "var a = ;\n"
	if verifParam("valid") == 1 {
		stmt = "var a = 1;\n"
	}
	src := make([]byte, 0, n*len(stmt))
	for i := 0; i < n; i++ {
		src = append(src, stmt...)
	}
	text := string(src)
	reports := 0
	c := nondetInt()
	verifAssume(c >= 0 && c <= n+2)
	ctx := &verifJsCtx{reports: &reports, c: c, closed: make(chan struct{}), open: make(chan struct{})}
	close(ctx.closed)
	events := 0
	listener := func(nt NodeType, offset, endoffset int) { events++ }
	var s TokenStream
	var p Parser
	s.Init(text, listener)
	p.Init(func(se SyntaxError) bool { reports++; return true }, listener)
	err := p.ParseModule(ctx, &s)
	// every statement is 4 (5) tokens and, in the broken variant, one report: 512 shifts are at most 130 statements
	const slack = 140
	if err == verifJsCancelled {
		verifAssert(reports >= c, "cancel-error-only-after-cancellation")
		verifAssert(reports-c <= slack, "stops-within-512-shifts-of-cancellation")
	} else {
		verifAssert(err == nil, "finished-run-succeeds-with-recovery")
		if verifParam("valid") == 0 {
			verifAssert(reports == n, "one-report-per-statement")
			verifAssert(c+slack >= reports, "finished-only-if-cancelled-late")
		}
	}
	if verifWitnessMode() {
		verifAssert(false, "witness")
	}
}
