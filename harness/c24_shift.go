package shiftdfa

// C24: shiftdfa.Scanner.Scan vs lex.Tables.Scan on a symbolic byte string, for every rule set of the
// corpus that the real Pack accepts. The rule sets are compiled by the real lex.Compile / Pack
// *inside* the symbolic executor (concretely), so the tables always come from the current tree.

import (
	"fmt"

	"github.com/inspirer/textmapper/lex"
)

type verifRuleSet struct {
	rules []Rule
	pats  map[string]string
}

var verifSets = []verifRuleSet{
	0: {rules: []Rule{{Pattern: `\/\*{commentChars}\*\/`, Token: 1}, {Pattern: `\/\*{commentChars}`, Token: 0}, {Pattern: `\/\/[^\n\r]*`, Token: 2}},
		pats: map[string]string{"commentChars": `([^*]|\*+[^*\/])*\**`}},
	1: {rules: []Rule{{Pattern: `[a-z]+(-[a-z]+)*`, Token: 1}, {Pattern: `[a-z]+(-[a-z]+)*-`, Token: 0}}},
	2: {rules: []Rule{{Pattern: `keyword`, Token: 1}}},
	3: {rules: []Rule{{Pattern: `keyword`, Token: 1}, {Pattern: `[a-z]+`, Token: 2, Precedence: -1}, {Pattern: `[a-zA-Z]+`, Token: 31, Precedence: -2}}},
	// classes over 0x80..0xff (byte mode)
	4: {rules: []Rule{{Pattern: `a`, Token: 1}, {Pattern: `[\x80-\x8f]`, Token: 2}, {Pattern: `[\x90-\xff]+`, Token: 3}}},
	5: {rules: []Rule{{Pattern: `[\x00-\x7f]`, Token: 1}, {Pattern: `[\xc0-\xdf][\x80-\xbf]`, Token: 2}, {Pattern: `[\xe0-\xef][\x80-\xbf][\x80-\xbf]`, Token: 3}}},
	6: {rules: []Rule{{Pattern: `[0-9]+`, Token: 1}, {Pattern: `[0-9]+\.[0-9]+`, Token: 2}, {Pattern: `[ \t\n]+`, Token: 3}, {Pattern: `[^0-9 \t\n.]`, Token: 4}}},
	7: {rules: []Rule{{Pattern: `ab*`, Token: 1}, {Pattern: `b`, Token: 2}, {Pattern: `é`, Token: 3}}},
	8: {rules: []Rule{{Pattern: `"([^"\\]|\\.)*"`, Token: 1}, {Pattern: `"([^"\\]|\\.)*`, Token: 0}, {Pattern: `[^"]`, Token: 2}}},
	9: {rules: []Rule{{Pattern: `a{2,3}`, Token: 5}, {Pattern: `a`, Token: 6}, {Pattern: `\xff`, Token: 7}, {Pattern: `[^a\xff]`, Token: 8}}},
	10: {rules: []Rule{{Pattern: `x|yz?`, Token: 30}, {Pattern: `(?i)if`, Token: 9}, {Pattern: `.`, Token: 10, Precedence: -1}}},
	11: {rules: []Rule{{Pattern: `[\x80-\xff]`, Token: 1}, {Pattern: `[\x00-\x7f]`, Token: 2}}},
	12: {rules: []Rule{{Pattern: `[^a]b`, Token: 3}, {Pattern: `a+`, Token: 4}}},
	13: {rules: []Rule{{Pattern: `[\x80-\xff]+`, Token: 1}, {Pattern: `[a-z][a-z0-9]*`, Token: 2}, {Pattern: `[0-9]+`, Token: 3}, {Pattern: `[ \t]+`, Token: 4}}},
	14: {rules: []Rule{{Pattern: `ab`, Token: 1}, {Pattern: `abc`, Token: 2}}}, // needs backtracking: rejected
	15: {rules: []Rule{{Pattern: `<|<=|<<|<<=`, Token: 7}, {Pattern: `=|==`, Token: 8}, {Pattern: `[^<=]`, Token: 9}}},
	16: {rules: []Rule{{Pattern: `a`, Token: 32}, {Pattern: `[0-9]+`, Token: 1}, {Pattern: `b`, Token: 31}}},                                        // token 32 does not fit a 6-bit cell: must be rejected
	17: {rules: []Rule{{Pattern: `keywords`, Token: 1}, {Pattern: `[a-z]+`, Token: 2, Precedence: -1}, {Pattern: `[a-zA-Z]+`, Token: 31, Precedence: -2}}}, // 11 DFA states: one more than the packer supports
	18: {rules: []Rule{{Pattern: `keyword`, Token: 1}, {Pattern: `[a-z]+`, Token: 2, Precedence: -1}, {Pattern: `[a-zA-Z]+`, Token: 31, Precedence: -2}, {Pattern: `[\x80-\xff]`, Token: 30}}}, // 10 states, the limit, with the non-ASCII class
	19: {rules: []Rule{{Pattern: `[\x00-\x7f]+`, Token: 1}, {Pattern: `[^\x00-\x7f]+`, Token: 2}}},
}

func verifBuild(set verifRuleSet) (*Scanner, *lex.Tables, error) {
	var res resolver
	for name, pattern := range set.pats {
		re, err := lex.ParseRegexp(pattern, lex.CharsetOptions{ScanBytes: true})
		if err != nil {
			return nil, nil, err
		}
		if res.patterns == nil {
			res.patterns = make(map[string]*lex.Pattern)
		}
		res.patterns[name] = &lex.Pattern{Name: name, RE: re, Text: pattern, Origin: virtualNode{name: name}}
	}
	var in []*lex.Rule
	for i, r := range set.rules {
		re, err := lex.ParseRegexp(r.Pattern, lex.CharsetOptions{ScanBytes: true})
		if err != nil {
			return nil, nil, err
		}
		in = append(in, &lex.Rule{
			Pattern:         &lex.Pattern{Name: fmt.Sprintf("rule%v", i), RE: re, Text: r.Pattern, Origin: virtualNode{"rules", i}},
			Resolver:        res,
			Precedence:      r.Precedence,
			Action:          r.Token,
			StartConditions: defaultSCs,
			Origin:          virtualNode{"rules", i},
		})
	}
	tables, err := lex.Compile(in, true, false)
	if err != nil {
		return nil, nil, err
	}
	sc, err := Pack(tables)
	return sc, tables, err
}

func VerifC24Scan() {
	set := verifSets[verifParam("set")]
	sc, tables, err := verifBuild(set)
	if err != nil {
		verifNote("rule set not accepted by the packer")
		return
	}
	n := verifParam("n")
	buf := make([]byte, n)
	for i := range buf {
		buf[i] = nondetByte()
	}
	s := string(buf)
	size, tok := sc.Scan(s)
	wsize, wact := tables.Scan(0, s)
	verifAssert(size == wsize, "same-size")
	verifAssert(int(tok) == wact, "same-token")
	if verifWitnessMode() {
		verifAssert(false, "witness")
	}
}

// One step of the packed automaton against the tables it was packed from, for a symbolic byte and every
// DFA state: together with the bounded runs of the real loop this gives agreement on inputs of any length
// (induction on the input: equal states before a byte give equal states/actions after it).
func VerifC24Step() {
	set := verifSets[verifParam("set")]
	sc, tables, err := verifBuild(set)
	if err != nil {
		verifNote("rule set not accepted by the packer")
		return
	}
	states := len(tables.Dfa) / tables.NumSymbols
	b := nondetByte()
	// symbol of b: linear scan of the symbol map (independent of sort.Search in Tables.Scan)
	sym := 0
	for _, e := range tables.SymbolMap {
		if rune(b) >= e.Start {
			sym = int(e.Target)
		}
	}
	for q := 0; q < states; q++ {
		cell := int(sc.table[b]>>uint(6*q)) & 63
		target := tables.Dfa[q*tables.NumSymbols+sym]
		if target >= 0 {
			verifAssert(cell == 6*target, "step-transition")
		} else {
			verifAssert(cell == 2*(-1-target)+1, "step-action")
		}
		eoi := tables.Dfa[q*tables.NumSymbols]
		verifAssert(eoi < 0 && int(sc.onEoi[q]) == -1-eoi, "step-eoi")
	}
	verifAssert(len(tables.Backtrack) == 0 && len(tables.StateMap) == 1 && tables.StateMap[0] == 0, "packer-preconditions")
	if verifWitnessMode() {
		verifAssert(false, "witness")
	}
}
