package ast

// C20 (kernel): the tree builder fed with a symbolic, well-nested, post-ordered event stream.

import "github.com/inspirer/textmapper/parsers/tm"

func VerifC20Builder() {
	k := verifParam("k")
	allowEmpty := verifParam("empty") == 1
	const size = 8
	b := newBuilder("p.tm", "01234567")
	ss, es := make([]int, k), make([]int, k)
	for i := 0; i < k; i++ {
		s, e := nondetInt(), nondetInt()
		verifAssume(0 <= s && s <= e && e <= size)
		if !allowEmpty {
			verifAssume(s < e)
		}
		for j := 0; j < i; j++ {
			before := es[j] <= s               // j lies to the left of i
			after := e <= ss[j]                // j lies to the right of i: disjoint nodes may be reported in any order (pending tokens,
			                                   // inserted semicolons and error nodes are reported after nodes to their right were)
			inside := s <= ss[j] && es[j] <= e // i contains j: containers are reported after their contents
			verifAssume(before || after || inside)
			if allowEmpty {
				// empty nodes sitting exactly on a boundary of another node have no determined parent: keep them apart
				verifAssume(!(ss[j] == es[j] && (ss[j] == s || ss[j] == e)) || (s == e && ss[j] != s))
				verifAssume(!(s == e && (s == ss[j] || s == es[j])))
			}
		}
		if verifParam("endempty") == 0 {
			// an empty node at the very end of the input is dropped by build() (KNOWN_FINDINGS.txt: C20 empty-node-at-end-of-input);
			// the dedicated job with endempty=1 confirms that finding, every other job excludes exactly this shape
			verifAssume(!(s == e && s == size))
		}
		ss[i], es[i] = s, e
		b.addNode(tm.NodeType(i+1), s, e)
	}
	if verifParam("endempty") == 1 {
		verifAssume(ss[k-1] == size && es[k-1] == size)
	}
	tree, err := b.build()
	verifAssert(err == nil && tree != nil && tree.root != nil, "build-succeeds")
	if err != nil || tree == nil || tree.root == nil {
		return
	}
	// collect nodes by their (unique) type
	nodes := make([]*Node, k+1)
	count := 0
	var walk func(n *Node, depth int)
	walk = func(n *Node, depth int) {
		if depth > k+2 {
			verifAssert(false, "tree-is-finite")
			return
		}
		count++
		if count > 2*k+4 {
			// more visits than nodes: a node is attached twice or the sibling chain is cyclic
			verifAssert(false, "tree-is-finite")
			return
		}
		idx := k
		if n.t != tm.File {
			idx = int(n.t) - 1
		}
		if idx >= 0 && idx <= k {
			nodes[idx] = n
		}
		prevEnd := n.offset
		for c := n.firstChild; c != nil; c = c.next {
			verifAssert(c.parent == n, "child-points-to-parent")
			verifAssert(n.offset <= c.offset && c.endoffset <= n.endoffset, "child-inside-parent")
			verifAssert(prevEnd <= c.offset, "siblings-in-source-order")
			prevEnd = c.endoffset
			walk(c, depth+1)
			if count > 2*k+4 {
				return
			}
		}
	}
	walk(tree.root, 0)
	verifAssert(tree.root.t == tm.File && tree.root.offset == 0 && tree.root.endoffset == size, "root-spans-the-input")
	verifAssert(count == k+1, "exactly-the-reported-nodes")
	for i := 0; i < k; i++ {
		verifAssert(nodes[i] != nil, "every-reported-node-is-in-the-tree")
		if nodes[i] == nil {
			continue
		}
		verifAssert(nodes[i].offset == ss[i] && nodes[i].endoffset == es[i], "node-keeps-its-range")
		// smallest container: the first later event that contains it (containers come later, nesting is laminar); else the root
		want := k
		for j := k - 1; j > i; j-- {
			if ss[j] <= ss[i] && es[i] <= es[j] {
				want = j
			}
		}
		verifAssert(nodes[i].parent == nodes[want], "attached-to-its-smallest-container")
	}
	if verifWitnessMode() {
		verifAssert(false, "witness")
	}
}
