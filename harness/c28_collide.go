package compiler

// C28 (collision rule): two symbols that would receive the same identifier in generated code are reported.
// resolver.addToken / addNonterms (with ident.Produce) on symbol names and explicit token IDs whose bytes are solver variables.

import (
	"github.com/inspirer/textmapper/parsers/tm/ast"
	"github.com/inspirer/textmapper/status"
	"github.com/inspirer/textmapper/syntax"
)

type verifOrigin struct{}

func (verifOrigin) SourceRange() status.SourceRange { return status.SourceRange{Filename: "v.tm", Line: 1, Column: 1} }

// a name of n bytes over a small alphabet that contains letters of both cases, a digit and both separators the
// identifier conversion drops or rewrites
func verifSymName(n int, explicitID bool) string {
	b := make([]byte, n)
	for i := range b {
		c := nondetByte()
		if explicitID {
			verifAssume(c == 'A' || c == 'B' || c == '_')
		} else {
			verifAssume(c == 'a' || c == 'b' || c == 'A' || c == 'B' || c == '_' || i > 0 && i < n-1 && c == '-' || i > 0 && c == '1')
		}
		b[i] = c
	}
	if explicitID {
		verifAssume(b[0] != '_' && b[n-1] != '_')
	}
	return string(b)
}

// VerifC28Tokens: two terminal declarations, each with a generated or an explicit ID.
func VerifC28Tokens() {
	var s status.Status
	r := newResolver(&s)
	n1 := verifSymName(verifParam("n1"), false)
	n2 := verifSymName(verifParam("n2"), false)
	verifAssume(n1 != n2)
	id1, id2 := "", ""
	if k := verifParam("e1"); k > 0 {
		id1 = verifSymName(k, true)
	}
	if k := verifParam("e2"); k > 0 {
		id2 = verifSymName(k, true)
	}
	r.addToken(n1, id1, ast.RawType{}, ast.LexemeAttribute{}, verifOrigin{})
	r.addToken(n2, id2, ast.RawType{}, ast.LexemeAttribute{}, verifOrigin{})
	if s.Err() == nil {
		verifAssert(len(r.Syms) == 2, "both-symbols-registered")
		if len(r.Syms) == 2 {
			verifAssert(r.Syms[0].ID != r.Syms[1].ID, "distinct-symbols-get-distinct-identifiers-or-an-error")
		}
	}
	if verifWitnessMode() {
		verifAssert(false, "witness")
	}
}

// VerifC28Nonterm: a terminal and a nonterminal (as it is named after template instantiation, e.g. a_B), or two nonterminals.
func VerifC28Nonterm() {
	var s status.Status
	r := newResolver(&s)
	n1 := verifSymName(verifParam("n1"), false)
	n2 := verifSymName(verifParam("n2"), false)
	verifAssume(n1 != n2)
	m := &syntax.Model{}
	if verifParam("both") == 1 {
		m.Nonterms = append(m.Nonterms, &syntax.Nonterm{Name: n1, Origin: verifOrigin{}, Value: &syntax.Expr{Kind: syntax.Empty, Origin: verifOrigin{}}})
	} else {
		r.addToken(n1, "", ast.RawType{}, ast.LexemeAttribute{}, verifOrigin{})
	}
	m.Nonterms = append(m.Nonterms, &syntax.Nonterm{Name: n2, Origin: verifOrigin{}, Value: &syntax.Expr{Kind: syntax.Empty, Origin: verifOrigin{}}})
	for _, sym := range r.Syms {
		m.Terminals = append(m.Terminals, syntax.Terminal{Name: sym.Name})
	}
	r.addNonterms(m)
	if s.Err() == nil {
		verifAssert(len(r.Syms) == 2, "both-symbols-registered")
		if len(r.Syms) == 2 {
			verifAssert(r.Syms[0].ID != r.Syms[1].ID, "distinct-symbols-get-distinct-identifiers-or-an-error")
		}
	}
	if verifWitnessMode() {
		verifAssert(false, "witness")
	}
}
