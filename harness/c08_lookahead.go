package lalr

// C08 (kernel): newLookaheadRule / pickLookahead / Lookahead.Accepts on a set of lookahead alternatives whose
// negation flags are solver variables, evaluated under a symbolic truth assignment of the predicates.
// The inputs each alternative mentions (and their order) are free choices.

var verifPerms = [][]int32{{1, 2, 3}, {1, 3, 2}, {2, 1, 3}, {2, 3, 1}, {3, 1, 2}, {3, 2, 1}}

func VerifC08Rule() {
	a, p := verifParam("a"), verifParam("p")
	las := make([]Lookahead, a)
	inp := make([][]int32, a)
	neg := make([][]bool, a)
	for i := 0; i < a; i++ {
		perm := verifPerms[verifChoice(len(verifPerms))]
		inp[i] = perm[:p]
		neg[i] = make([]bool, p)
		for j := 0; j < p; j++ {
			neg[i][j] = nondetBool()
			las[i].Predicates = append(las[i].Predicates, Predicate{Input: inp[i][j], Negated: neg[i][j]})
		}
		las[i].Nonterminal = Sym(10 + i)
	}
	var sigma [4]bool // truth of "the input parses here" for inputs 1..3
	for k := 1; k <= 3; k++ {
		sigma[k] = nondetBool()
	}
	rule, err := newLookaheadRule(append([]Lookahead(nil), las...))
	// which alternatives hold under sigma
	count, which := 0, -1
	for i := 0; i < a; i++ {
		holds := 1
		for j := 0; j < p; j++ {
			holds &= verifB2I(sigma[inp[i][j]] != neg[i][j])
		}
		count += holds
		which = verifIte(holds == 1, i, which)
	}
	if err == nil {
		// accepted sets are mutually exclusive
		verifAssert(count <= 1, "accepted-set-is-mutually-exclusive")
		// the generated decision procedure: first case whose predicate evaluates to true, else the default
		target := int(rule.DefaultTarget)
		for k := len(rule.Cases) - 1; k >= 0; k-- {
			c := rule.Cases[k]
			target = verifIte(sigma[c.Input] != c.Negated, int(c.Target), target)
		}
		if count == 1 {
			verifAssert(target == 10+which, "selects-the-alternative-whose-predicates-hold")
		}
		verifAssert(len(rule.Cases) == a-1, "one-case-per-non-default-alternative")
	}
	if verifWitnessMode() {
		verifAssert(false, "witness")
	}
}
