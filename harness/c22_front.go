package ast

// C22 (partial): position kernels and the grammar front end (tm lexer, tm parser, tree builder) on grammar texts with
// symbolic bytes.

import (
	"context"

	"github.com/inspirer/textmapper/parsers/tm"
)

func VerifC22LineColumn() {
	n := verifParam("n")
	buf := make([]byte, n)
	for i := range buf {
		buf[i] = nondetByte()
	}
	text := string(buf)
	off := nondetInt()
	verifAssume(off >= 0 && off <= n)
	end := nondetInt()
	verifAssume(end >= off && end <= n)
	tree := newTree("g.tm", text)
	node := &Node{tree: tree, offset: off, endoffset: end}
	line, col := node.LineColumn()
	wl, wc := 1, 1
	for k := 0; k < n; k++ {
		if k < off {
			wc++
			if buf[k] == '\n' {
				wl++
				wc = 1
			}
		}
	}
	verifAssert(line == wl, "line-consistent-with-offset")
	verifAssert(col == wc, "column-consistent-with-offset")
	sr := node.SourceRange()
	verifAssert(sr.Offset == off && sr.EndOffset == end && sr.Line == wl && sr.Column == wc && sr.Filename == "g.tm", "source-range-consistent")
	if verifWitnessMode() {
		verifAssert(false, "witness")
	}
}

// grammar texts; symbolic bytes are inserted (or overwrite) "back" bytes before the end of one of them
var verifTemplates = [...]string{
	"language g(go);\n",
	"language g(go);\n\n:: lexer\n\na: /a/\n",
	"language g(go);\n:: lexer\nid: /[a-z]+/ (class)\n",
	"language g(go);\n:: lexer\na: /a/\n:: parser\ninput : a ;\n",
	"language g(go);\n:: lexer\na: /a/\n:: parser\ninput : a (a separator a)+ -> Top ;\n",
	"language g(go);\nx = \"a\"\ny = true\n",
	"language g(go);\n:: lexer\na: /a/ { x }\n",
	"language g(go);\n:: lexer\n%x st;\n<st> a: /a/\n",
}

func VerifC22Front() {
	g := []byte(verifTemplates[verifParam("tmpl")])
	h := len(g) - verifParam("back")
	k := verifParam("k")
	overwrite := verifParam("overwrite") == 1
	mid := make([]byte, k)
	for i := range mid {
		mid[i] = nondetByte()
		if verifParam("ascii") == 1 {
			verifAssume(mid[i] < 0x80)
		}
	}
	var buf []byte
	buf = append(buf, g[:h]...)
	buf = append(buf, mid...)
	if overwrite && h+k <= len(g) {
		buf = append(buf, g[h+k:]...)
	} else {
		buf = append(buf, g[h:]...)
	}
	text := string(buf)
	tree, err := Parse(context.Background(), "g.tm", text, tm.StopOnFirstError)
	if err != nil {
		se, ok := err.(tm.SyntaxError)
		verifAssert(ok, "front-end-error-is-a-SyntaxError")
		if ok {
			verifAssert(0 <= se.Offset && se.Offset <= se.Endoffset && se.Endoffset <= len(text), "error-range-inside-text")
			nl := 1
			for i := 0; i < len(text) && i < se.Offset; i++ {
				if text[i] == '\n' {
					nl++
				}
			}
			verifAssert(se.Line == nl, "error-line-consistent-with-offset")
		}
	} else {
		verifAssert(tree != nil && tree.Root() != nil && tree.Root().Offset() == 0 && tree.Root().Endoffset() == len(text), "tree-spans-the-text")
	}
	if verifWitnessMode() {
		verifAssert(false, "witness")
	}
}
