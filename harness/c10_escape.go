package lex

// C10 (escapes): \xHH \uHHHH \UHHHHHHHH \x{H...} \OOO and single-character escapes with symbolic body
// bytes, standalone and inside a character class, rune and byte mode.

// verifRefHex: value of a hexadecimal digit per the documented syntax, -1 otherwise (written from the
// documentation: 0-9, a-f, A-F).
func verifRefHex(b byte) int {
	switch {
	case b >= '0' && b <= '9':
		return int(b - '0')
	case b >= 'a' && b <= 'f':
		return int(b-'a') + 10
	case b >= 'A' && b <= 'F':
		return int(b-'A') + 10
	}
	return -1
}

func verifIn(cs charset, r rune) bool {
	in := false
	for i := 0; i+1 < len(cs); i += 2 {
		if cs[i] <= r && r <= cs[i+1] {
			in = true
		}
	}
	return in
}

// verifWellFormed: representation invariant of a charset (the documented one: sorted, non-overlapping, lo<=hi, within [0,max]).
func verifWellFormed(cs charset, max rune) bool {
	ok := len(cs)%2 == 0
	for i := 0; i+1 < len(cs); i += 2 {
		if cs[i] > cs[i+1] || cs[i] < 0 || cs[i+1] > max {
			ok = false
		}
		if i > 0 && cs[i] <= cs[i-1] {
			ok = false
		}
	}
	return ok
}

func verifErrInside(err error, n int, id string) {
	pe, ok := err.(ParseError)
	verifAssert(ok, id+"/is-ParseError")
	if ok {
		verifAssert(0 <= pe.Offset && pe.Offset <= pe.EndOffset && pe.EndOffset <= n, id)
	}
}

// kind: 0 = \xHH, 1 = \uHHHH, 2 = \UHHHHHHHH, 3 = \x{H...} with n digits, 4 = \u{...}, 5 = \U{...}
// ctx: 0 = standalone, 1 = inside [...]
func VerifC10HexEscape() {
	kind, n, inClass, bytesMode := verifParam("kind"), verifParam("n"), verifParam("ctx") == 1, verifParam("bytes") == 1
	letter := [...]byte{'x', 'u', 'U', 'x', 'u', 'U'}[kind]
	if kind < 3 {
		n = [...]int{2, 4, 8}[kind]
	}
	var src []byte
	if inClass {
		src = append(src, '[')
	}
	src = append(src, '\\', letter)
	if kind >= 3 {
		src = append(src, '{')
	}
	body := make([]byte, n)
	for i := range body {
		body[i] = nondetByte()
		if kind >= 3 {
			verifAssume(body[i] != '}')
		}
		if kind < 3 && i == 0 {
			verifAssume(body[i] != '{') // that is the brace form, covered by kinds 3..5
		}
		if verifParam("hexmask")>>uint(i)&1 == 1 {
			// this position is restricted to the documented hex digits (driver parameter: bit mask); the parser goes on
			// parsing the rest of the pattern after a bad digit, so free bytes are placed one or two at a time
			verifAssume(verifRefHex(body[i]) >= 0)
		}
		src = append(src, body[i])
	}
	if kind >= 3 {
		src = append(src, '}')
	}
	if inClass {
		src = append(src, ']')
	}
	opts := CharsetOptions{ScanBytes: bytesMode}
	re, err := ParseRegexp(string(src), opts)

	ok, v := true, uint64(0)
	for _, b := range body {
		d := verifRefHex(b)
		ok = ok && d >= 0
		v = v*16 + uint64(d&15)
	}
	limit := uint64(0x10FFFF)
	if inClass && bytesMode {
		limit = 0xff
	}
	ok = ok && v <= limit
	verifAssert((err == nil) == ok, "hex-accept-iff-wellformed")
	if err == nil && ok {
		if bytesMode && !inClass && v > 0x7f {
			want := string(rune(v))
			verifAssert(re.op == opBytesLiteral && re.text == want, "hex-value")
		} else {
			verifAssert(re.op == opCharClass && len(re.charset) == 2 && uint64(re.charset[0]) == v && uint64(re.charset[1]) == v, "hex-value")
		}
	}
	if err != nil {
		verifErrInside(err, len(src), "hex-error-inside-pattern")
	}
	if verifWitnessMode() {
		verifAssert(false, "witness")
	}
}

func VerifC10Octal() {
	inClass, bytesMode := verifParam("ctx") == 1, verifParam("bytes") == 1
	var src []byte
	if inClass {
		src = append(src, '[')
	}
	src = append(src, '\\')
	body := make([]byte, 3)
	for i := range body {
		body[i] = nondetByte()
		src = append(src, body[i])
	}
	verifAssume(body[0] >= '0' && body[0] <= '7')
	if inClass {
		src = append(src, ']')
		verifAssume(body[1] != ']' && body[2] != ']' && body[1] != '\\' && body[2] != '\\' && body[1] != '[' && body[2] != '[')
	}
	re, err := ParseRegexp(string(src), CharsetOptions{ScanBytes: bytesMode})
	ok, v := true, 0
	for _, b := range body {
		d := -1
		if b >= '0' && b <= '7' {
			d = int(b - '0')
		}
		ok = ok && d >= 0
		v = v*8 + d&7
	}
	ok = ok && v <= 0xff
	verifAssert((err == nil) == ok, "octal-accept-iff-wellformed")
	if err == nil && ok {
		if bytesMode && !inClass && v > 0x7f {
			verifAssert(re.op == opBytesLiteral && re.text == string(rune(v)), "octal-value")
		} else {
			verifAssert(re.op == opCharClass && len(re.charset) == 2 && int(re.charset[0]) == v && int(re.charset[1]) == v, "octal-value")
		}
	}
	if err != nil {
		verifErrInside(err, len(src), "octal-error-inside-pattern")
	}
	if verifWitnessMode() {
		verifAssert(false, "witness")
	}
}

// single-character escapes \c for every byte c
func VerifC10CharEscape() {
	inClass, bytesMode := verifParam("ctx") == 1, verifParam("bytes") == 1
	c := nondetByte()
	// escapes with their own syntax are covered by the other harnesses
	verifAssume(!(c >= '0' && c <= '7') && c != 'p' && c != 'P' && c != 'd' && c != 'D' && c != 'w' && c != 'W' && c != 's' && c != 'S' && c != 'x' && c != 'u' && c != 'U' && c != 'Q')
	var src []byte
	if inClass {
		src = append(src, '[')
	}
	src = append(src, '\\', c)
	if inClass {
		src = append(src, ']')
	}
	re, err := ParseRegexp(string(src), CharsetOptions{ScanBytes: bytesMode})
	want, ok := rune(c), true
	switch {
	case c == 'a':
		want = 7
	case c == 'f':
		want = 12
	case c == 'n':
		want = 10
	case c == 'r':
		want = 13
	case c == 't':
		want = 9
	case c == 'v':
		want = 11
	case c >= 0x80:
		ok = false // a lone byte >= 0x80 is not a valid UTF-8 pattern
	case c >= 'a' && c <= 'z' || c >= 'A' && c <= 'Z' || c == '8' || c == '9':
		ok = false // unknown alphanumeric escapes are reserved
	}
	verifAssert((err == nil) == ok, "escape-accept-iff-documented")
	if err == nil && ok {
		verifAssert(re.op == opCharClass && len(re.charset) == 2 && re.charset[0] == want && re.charset[1] == want, "escape-value")
	}
	if err != nil {
		verifErrInside(err, len(src), "escape-error-inside-pattern")
	}
	if verifWitnessMode() {
		verifAssert(false, "witness")
	}
}
