from vlib.driver import Job

REL, PKG = "lex", "lex"
H = ["c10_escape.go", "c10_class.go"]


def J(entry, params, tag, flags=None, cost=1.0, twin=False):
    return Job(REL, PKG, H, entry, params, flags=flags or [], tag=tag, cost=cost, twin=twin)


def jobs(ctx):
    q = ctx.tier == "quick"
    out = []
    # hex escapes. hexmask: positions restricted to documented hex digits; the others are free bytes (0..255).
    # The parser keeps parsing the rest of the pattern after a bad digit, so free bytes are placed one at a time
    # (two for \\xHH); inside [...] only the last position is freed (anything else re-enters class parsing).
    def hexjobs(kind, n, ctxv, b):
        ln = [2, 4, 8][kind] if kind < 3 else n
        full = (1 << ln) - 1
        masks = [full]
        if ctxv == 0:
            if ln == 2:
                masks.append(0)
            frees = range(ln) if (not q or ln <= 4) else (0, ln // 2, ln - 1)
            masks += [full & ~(1 << i) for i in frees]
        else:
            masks.append(full & ~(1 << (ln - 1)))
        for m in sorted(set(masks)):
            out.append(J("VerifC10HexEscape", {"kind": kind, "n": n, "ctx": ctxv, "bytes": b, "hexmask": m},
                         "hex kind=%d n=%d ctx=%d bytes=%d hexmask=%x" % (kind, n, ctxv, b, m), cost=3 if m == full else 20))
    for ctxv in (0, 1):
        for b in (0, 1):
            for kind in (0, 1, 2):
                hexjobs(kind, 0, ctxv, b)
            for kind in (3, 4, 5):
                ns = range(1, 10) if kind == 3 else (1, 5, 9)
                if q:
                    ns = (1, 2, 6, 9) if kind == 3 else (5,)
                for n in ns:
                    hexjobs(kind, n, ctxv, b)
            out.append(J("VerifC10Octal", {"ctx": ctxv, "bytes": b}, "octal ctx=%d bytes=%d" % (ctxv, b), cost=4))
            out.append(J("VerifC10CharEscape", {"ctx": ctxv, "bytes": b}, "charescape ctx=%d bytes=%d" % (ctxv, b), cost=3))
    out.append(J("VerifC10HexEscape", {"kind": 0, "n": 0, "ctx": 0, "bytes": 0, "hexmask": 0}, "hex twin", twin=True))
    out.append(J("VerifC10Octal", {"ctx": 0, "bytes": 0}, "octal twin", twin=True))
    out.append(J("VerifC10CharEscape", {"ctx": 0, "bytes": 0}, "charescape twin", twin=True))
    # charset kernels (forking only: every query is a conjunction of 32-bit comparisons)
    shapes = {0: [(1, 0), (2, 0), (3, 0)], 1: [(0, 0), (1, 0), (2, 0), (3, 0)], 2: [(1, 1), (2, 1), (1, 2)], 3: [(1, 1), (2, 1), (1, 2)]}
    if not q:
        shapes[2] += [(2, 2), (3, 1)]
        shapes[3] += [(2, 2)]
        shapes[0] += [(4, 0)]
    for op, lst in shapes.items():
        for na, nb in lst:
            for b in (0, 1):
                if q and b == 1 and na + nb >= 3:
                    continue
                out.append(J("VerifC10Charset", {"na": na, "nb": nb, "op": op, "bytes": b}, "charset op=%d na=%d nb=%d bytes=%d" % (op, na, nb, b), flags=["-nomerge"], cost=12.0 ** (na + nb) / 10))
    out.append(J("VerifC10Charset", {"na": 1, "nb": 1, "op": 2, "bytes": 0}, "charset twin", flags=["-nomerge"], twin=True))
    # bracket classes
    for form in range(4):
        for neg in (0, 1):
            for b in (0, 1):
                out.append(J("VerifC10Class", {"form": form, "neg": neg, "bytes": b}, "class form=%d neg=%d bytes=%d" % (form, neg, b), cost=3))
    out.append(J("VerifC10Class", {"form": 0, "neg": 0, "bytes": 0}, "class twin", twin=True))
    for which in range(7):
        for c in range(3):
            for b in (0, 1):
                out.append(J("VerifC10Builtin", {"which": which, "ctx": c, "bytes": b}, "builtin which=%d ctx=%d bytes=%d" % (which, c, b)))
    out.append(J("VerifC10Builtin", {"which": 0, "ctx": 0, "bytes": 0}, "builtin twin", twin=True))
    for form in range(3):
        for b in (0, 1):
            out.append(J("VerifC10Fold", {"form": form, "bytes": b}, "fold form=%d bytes=%d" % (form, b), cost=5))
    out.append(J("VerifC10Fold", {"form": 0, "bytes": 0}, "fold twin", twin=True))
    for form in range(3):
        out.append(J("VerifC10FoldHigh", {"form": form}, "foldhigh form=%d" % form, cost=40))
    out.append(J("VerifC10FoldHigh", {"form": 0}, "foldhigh twin", twin=True))
    for nl in (1, 2, 3):
        for form in range(7):
            for b in (0, 1):
                out.append(J("VerifC10Quant", {"nl": nl, "form": form, "bytes": b}, "quant nl=%d form=%d bytes=%d" % (nl, form, b), cost=3))
    out.append(J("VerifC10Quant", {"nl": 2, "form": 3, "bytes": 0}, "quant twin", twin=True))
    return out


def describe(ctx):
    return {
        "explanation": "lex.ParseRegexp (parser.next/parse/parseEscape/parseClass, hexval, octval, utf8 decoding) executed on patterns whose escape body "
                       "bytes / class end points are solver variables: accepted iff well-formed per the documented syntax, value equals an independent "
                       "arithmetic reference, errors are ParseErrors located inside the pattern. charset newCharset/invert/subtract/intersect on symbolic "
                       "range lists and bracket/predefined/case-folded classes are compared, for a symbolic probe rune over all code points, with "
                       "membership semantics and the representation invariant.",
        "bounds": {"escapes": "\\xHH both body bytes free (0..255); \\uHHHH \\UHHHHHHHH \\x{..} (1..9 digits; quick 1,2,6,9) \\u{..}/\\U{..} (1,5,9): all digits symbolic over the documented hex digits plus, one position at a time, one fully free byte; \\OOO; \\c for every byte c; standalone and inside [..]; rune and byte mode",
                   "charset kernels": "<=3 ranges (4 thorough) for newCharset/invert, (2,1)/(1,2) (thorough (2,2),(3,1)) for subtract/intersect; end points anywhere in [0,max]",
                   "classes": "[lo-hi] [lo-hic] [lo-hi-[c-d]] [lo-hic-d] and negations, end points any plain ASCII byte, probe over [0,0x10FFFF]",
                   "fold": "(?i)c, (?i)[c..c+2], Fold option; c any ASCII letter; byte mode: (?i)[\\xHH], (?i)\\xHH, (?i)[\\xHH-\\xHH+1] for every byte >= 0x80",
                   "quantifiers": "1..3 plain literal characters (symbolic, a..c) followed by * + ? {d} {d,} {d,e} {dd} with symbolic digits: AST shape and bounds"},
        "outside": ["\\p{..} Unicode class contents", "patterns beyond these templates (nesting and alternation are exercised through C09's corpus only)", "non-ASCII class end points", "case folding of non-ASCII letters"],
        "trusted": ["go/ssa", "symgo executor", "z3", "harness oracles (verifRefHex, membership, documented class contents)"],
        "assumptions": ["'}' does not occur inside a \\x{..} body (shorter bodies are separate cases)"],
    }
