from vlib.driver import Job

REL, PKG, H = "util/diff", "diff", "c27_diff.go"


def jobs(ctx):
    out = []
    q = ctx.tier == "quick"
    mx = 4 if q else 6
    for la in range(0, mx + 1):
        for lb in range(0, mx + 1):
            ks = [3] if la + lb <= (8 if q else 9) else [2]
            if not q and la + lb <= 7:
                ks = [4]
            for k in ks:
                out.append(Job(REL, PKG, H, "VerifC27Lcs", {"la": la, "lb": lb, "k": k}, tag="lcs la=%d lb=%d k=%d" % (la, lb, k), cost=float(k) ** (la + lb) / 50 + 1))
    out.append(Job(REL, PKG, H, "VerifC27Lcs", {"la": 2, "lb": 2, "k": 2}, tag="lcs twin", twin=True))
    # LineDiff: (nl, nr, holes-left, holes-right, empties-left, empties-right, shift)
    cfgs = []
    for nl in range(1, 4):
        for nr in range(1, 4):
            cfgs.append((nl, nr, (1 << nl) - 1, (1 << nr) - 1, 0, 0, 0))
    cfgs += [(3, 3, 5, 5, 2, 0, 0), (3, 3, 3, 6, 0, 5, 0), (2, 3, 3, 7, 1, 4, 0), (3, 2, 0, 3, 4, 0, 1), (1, 1, 0, 0, 1, 1, 0), (1, 2, 1, 1, 0, 2, 0)]
    # long texts: changes far apart split hunks (more than 6 equal lines between them), leading context trimmed
    cfgs += [(12, 12, 0, (1 << 0) | (1 << 11), 0, 0, 0), (13, 13, (1 << 1) | (1 << 6), (1 << 1) | (1 << 12), 0, 0, 0),
             (12, 12, 1 << 5, 1 << 5, 0, 0, 0), (10, 9, 1 << 9, 1 << 8, 0, 1, 1), (12, 13, 1 << 0, (1 << 4) | (1 << 12), 0, 0, 0)]
    if not q:
        cfgs += [(4, 4, 15, 15, 0, 0, 0), (4, 3, 15, 7, 0, 0, 1), (13, 13, (1 << 0) | (1 << 8), (1 << 4) | (1 << 12), 1 << 6, 1 << 6, 0),
                 (13, 12, (1 << 3) | (1 << 12), (1 << 3) | (1 << 11), 0, 0, 2), (8, 8, 0x81, 0x81, 0x18, 0x18, 0), (13, 13, 0x1001, 0x1001, 0, 0x40, 0)]
    cfgs = [c + (0, 0) for c in cfgs]
    # insertions / deletions at the very top followed by 1..8 unchanged lines (leading context handling)
    for n in ((1, 3, 4, 5, 8) if q else range(1, 12)):
        cfgs += [(n, n, 0, 0, 0, 0, 0, 1, 0), (n, n, 0, 0, 0, 0, 0, 0, 1), (n, n, 0, 1 << (n - 1), 0, 0, 0, 2, 0)]
    for nl, nr, hl, hr, el, er, sh, pre, prel in cfgs:
        nh = bin(hl).count("1") + bin(hr).count("1") + pre + prel
        out.append(Job(REL, PKG, H, "VerifC27LineDiff", {"nl": nl, "nr": nr, "hl": hl, "hr": hr, "el": el, "er": er, "shift": sh, "pre": pre, "prel": prel},
                       tag="linediff nl=%d nr=%d hl=%x hr=%x el=%x er=%x shift=%d pre=%d prel=%d" % (nl, nr, hl, hr, el, er, sh, pre, prel), cost=3.0 ** nh / 5 + 2))
    out.append(Job(REL, PKG, H, "VerifC27LineDiff", {"nl": 2, "nr": 2, "hl": 3, "hr": 3, "el": 0, "er": 0, "shift": 0, "pre": 0, "prel": 0}, tag="linediff twin", twin=True))
    return out


def describe(ctx):
    return {
        "explanation": "diff.lcs (with trace/middle/chunk.merge) executed on two symbolic line-id sequences: the chunk script must be consistent "
                       "(equal runs equal, covers both sequences) and its number of edits must equal |a|+|b|-2*LCS with LCS from a branch-free reference DP "
                       "over the same symbolic ids; log.Fatal ('no snake') is a violation. diff.LineDiff (split, lcs, hunk.add/writeTo through "
                       "fmt.Fprintf into the real strings.Builder) on texts whose hole lines are symbolic bytes: output empty iff texts equal, and a "
                       "unified-diff applier in the harness must turn left into right.",
        "bounds": {"lcs": "quick |a|,|b|<=4 ids in [0,3); thorough <=6 (ids in [0,4) when |a|+|b|<=7, [0,3) to 9, else [0,2))",
                   "linediff": "all texts of 1..3 (thorough 4) one-byte lines over 3 symbolic values incl. empty lines; 9..13-line texts with 1-4 symbolic lines placed to force hunk splits and trimmed leading context"},
        "outside": ["longer sequences", "runs of more than 14 changed lines (LineDiff abbreviates those with a '... lines skipped ...' marker, which by design does not apply as a patch)",
                    "multi-byte line contents"],
        "trusted": ["go/ssa", "symgo executor", "z3", "reference LCS DP and unified-diff applier in the harness", "engine model of fmt.Fprintf (%v %c) into strings.Builder"],
        "assumptions": ["int is 64-bit"],
    }
