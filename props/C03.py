import os

from vlib import corpus, grammars, reflalr
from vlib.driver import Job, VERIF

REL, PKG, HK = "lalr", "lalr", "c03_kernel.go"

# grammars with genuine conflicts: compiled with %expect set to the reference counts (and off by one)
CONFLICT = [
    corpus.G("k01", "ieo", ["Sx"], [("Sx", "Tx"), ("Tx", "i Tx"), ("Tx", "i Tx e Tx"), ("Tx", "o")]),                                   # dangling else: 1 S/R
    corpus.G("k02", "ac", ["Sx"], [("Sx", "Ax a"), ("Sx", "Bx a"), ("Ax", "c"), ("Bx", "c")]),                                         # 1 R/R
    corpus.G("k03", "pa", ["Sx"], [("Sx", "Ex"), ("Ex", "Ex p Ex"), ("Ex", "a")]),                                                     # ambiguous expression: 1 S/R
    corpus.G("k04", "apc", ["Sx"], [("Sx", "Sx Ax"), ("Sx", ""), ("Ax", "Bx"), ("Bx", "Cx a"), ("Bx", "Cx Ax p"), ("Cx", "c"), ("Cx", "")]),   # from lalr/compile_test.go (3 S/R)
    corpus.G("k05", "abcde", ["Sx"], [("Sx", "a Ax d"), ("Sx", "b Bx d"), ("Sx", "a Bx e"), ("Sx", "b Ax e"), ("Ax", "c"), ("Bx", "c")]),       # LR(1) but not LALR(1): 2 R/R cells
]


def abstract_tables(g, meta):
    nts = grammars.nonterminals(g)
    symid = {name: i for i, name in enumerate(meta["syms"])}
    rules = []
    for lhs, rhs in grammars.ordered_rules(g):
        rules.append((nts.index(lhs), [(reflalr.NT + nts.index(s)) if s in nts else symid[s] for s in rhs if not grammars.is_meta(s)]))
    inputs = [(nts.index(nt), noeoi) for nt, noeoi in g["inputs"]]
    prec = {}
    for lvl, (assoc, terms) in enumerate(g.get("prec", [])):
        for t in terms:
            prec[symid[t]] = (lvl, assoc)
    rp = {}
    if g.get("rule_prec"):
        # rule_prec is keyed by abstract rule index: remap to print order
        order = grammars.ordered_rules(g)
        for idx, t in g["rule_prec"].items():
            rp[order.index(g["rules"][idx])] = symid[t]
    terminals = list(range(meta["num_tokens"]))
    return nts, symid, rules, inputs, prec, rp, terminals


def ref_counts(g):
    """Reference conflict counts need token ids: use a provisional numbering (eoi=0, invalid_token=1, terms...)."""
    syms = ["eoi", "invalid_token"] + list(g["terms"]) + list(g.get("extra_terms", ""))
    meta = {"syms": syms + grammars.nonterminals(g), "num_tokens": len(syms)}
    nts, symid, rules, inputs, prec, rp, terminals = abstract_tables(g, meta)
    ref = reflalr.build(rules, len(nts), inputs, terminals, prec, rp)
    return ref["sr"], ref["rr"]


def jobs(ctx):
    q = ctx.tier == "quick"
    out = []
    # kernel: conflict accounting against %expect
    for n in (0, 1, 2):
        out.append(Job(REL, PKG, HK, "VerifC03Expect", {"nconf": n}, tag="expect kernel nconf=%d" % n, cost=20))
    out.append(Job(REL, PKG, HK, "VerifC03Expect", {"nconf": 1}, tag="expect kernel twin", twin=True))
    for k in (2, 3) if q else (2, 3, 4):
        out.append(Job(REL, PKG, HK, "VerifC03Empty", {"nr": k}, tag="computeEmpty nr=%d" % k, cost=200))
    for shape, rcap in ((5, 2), (6, 3), (6, 2), (9, 3), (10, 4), (21, 3), (22, 4), (26, 4), (1, 1), (2, 0)) if q else ((5, 2), (6, 3), (6, 2), (9, 3), (10, 4), (21, 3), (22, 4), (26, 4), (26, 5), (42, 6), (42, 5), (27, 5), (1, 1), (2, 0)):
        out.append(Job("util/sparse", "sparse", "c03_sparse.go", "VerifC03Union", {"shape": shape, "rcap": rcap}, tag="sparse.Union shape=%d rcap=%d" % (shape, rcap), cost=30))
    out.append(Job("util/sparse", "sparse", "c03_sparse.go", "VerifC03Union", {"shape": 6, "rcap": 3}, tag="sparse.Union twin", twin=True))
    # grammars
    gs = [dict(g) for g in corpus.PLAIN + corpus.PREC if not g.get("expect_conflict") and not any(x.startswith("{") for _, r in g["rules"] for x in r)]
    items = []
    for g in gs:
        g["pkg"] = g["name"] + "_plain"
        items.append({"name": g["pkg"], "tm": grammars.print_tm(g, {}), "stub": True})
    expect_cases = []
    for g in CONFLICT:
        sr, rr = ref_counts(g)
        g = dict(g, refcounts=(sr, rr))
        for tag, esr, err in (("eq", sr, rr), ("srp", sr + 1, rr), ("rrp", sr, rr + 1)) + ((("srm", sr - 1, rr),) if sr > 0 else ()) + ((("rrm", sr, rr - 1),) if rr > 0 else ()):
            gg = dict(g, pkg="%s_%s" % (g["name"], tag), extra="%%expect %d;\n%%expect-rr %d;" % (esr, err))
            items.append({"name": gg["pkg"], "tm": grammars.print_tm(gg, {}), "stub": True})
            expect_cases.append((gg, tag))
            if tag == "eq":
                gs.append(gg)
    root, metas = grammars.build_scratch(ctx, items)
    ctx.vgen_root = root
    # %expect: accepted iff the declared counts equal the reference counts
    bad = []
    for gg, tag in expect_cases:
        m = metas[gg["pkg"]]
        if (tag == "eq") != m["ok"]:
            bad.append("%s: %%expect %s reference counts %s -> compiler %s (%s)" % (gg["pkg"], "equal to" if tag == "eq" else "different from", gg["refcounts"],
                                                                                 "accepted" if m["ok"] else "rejected", (m["errors"] or [""])[-1][:80]))
    ctx.notes.append("%%expect cases checked natively against the reference counts: %d, disagreements: %d" % (len(expect_cases), len(bad)))
    for b in bad:
        ctx.problems.append("conflict accounting disagrees with the reference: " + b)
    common = open(os.path.join(VERIF, "harness", "pair_common.go.txt")).read()
    first = None
    for g in gs:
        pa = g["pkg"]
        ma = metas[pa]
        if not ma["ok"]:
            ctx.problems.append("corpus grammar rejected by the compiler: %s %s" % (pa, ma["errors"][:1]))
            continue
        nts, symid, rules, inputs, prec, rp, terminals = abstract_tables(g, ma)
        # sanity: the compiler lists the rules in the printer's order
        want = [(ma["num_tokens"] + l, [x if x < reflalr.NT else ma["num_tokens"] + x - reflalr.NT for x in r]) for l, r in rules]
        got = [(r["lhs"], r["rhs"] or []) for r in ma["rules"]]
        if want != got:
            ctx.problems.append("compiled rule list differs from the grammar text: %s" % pa)
            continue
        ref = reflalr.build(rules, len(nts), inputs, terminals, prec, rp)
        pb = "ref_" + g["name"] + ("_" + pa.split("_")[-1] if pa.split("_")[-1] != "plain" else "")
        d = os.path.join(root, pb)
        os.makedirs(d, exist_ok=True)
        nt_sym = [ma["num_tokens"] + k for k in range(len(nts))]
        open(os.path.join(d, "ref.go"), "w").write(reflalr.go_package(pb, ref, rules, len(nts), ma["num_tokens"], terminals, len(ma["syms"]), nt_sym))
        pair = "pair_" + pa + "_ref"
        pd = os.path.join(root, pair)
        os.makedirs(pd, exist_ok=True)
        open(os.path.join(pd, "doc.go"), "w").write("// Package %s hosts a verification harness.\npackage %s\n" % (pair, pair))
        f1 = os.path.join(ctx.scratch, "h_%s_common.go" % pair)
        f2 = os.path.join(ctx.scratch, "h_%s_data.go" % pair)
        src = common.replace("package PKG", "package " + pair).replace("PKGA", pa).replace("PKGB", pb)
        # the reference is a table package: only the bisimulation entry applies (no parser to run)
        src = src[:src.index("// VerifPairRun:")] + src[src.index("// VerifPairBisim"):]
        src = src.replace('type verifEv struct{ t, s, e int }\n', '')
        open(f1, "w").write(src)
        open(f2, "w").write("package %s\n\nvar verifTerms = []int32{}\n" % pair)
        sf = os.path.join(ctx.scratch, "shim_%s.go" % pa)
        open(sf, "w").write(grammars.shim_file(ma, pa, os.path.join(root, pa)))
        pf = os.path.join(ctx.scratch, "prelude_%s.go" % pa)
        open(pf, "w").write(open(os.path.join(VERIF, "harness", "prelude_dep.go.txt")).read().replace("package PKG", "package " + pa))
        open(pf + ".native", "w").write(open(os.path.join(VERIF, "harness", "prelude_dep_native.go.txt")).read().replace("package PKG", "package " + pa))
        extra = {os.path.join(root, pa, "zz_verif_shim.go"): sf, os.path.join(root, pa, "zz_verif_prelude_dep.go"): pf}
        kf, kfids = None, None
        if g.get("known") == "final-state-sharing" or g["name"] == "p08":
            kf, kfids = "final-state-sharing", ["final-states-correspond", "same-action-kind", "goto-defined-together", "shift-targets-related", "goto-targets-related"]
        for inp in range(len(g["inputs"])):
            j = Job(pair, pair, [f1, f2], "VerifPairBisim", {"input": inp, "samerule": 1}, load_dir=root, import_path="vgen/" + pair, extra_overlay=extra,
                    tag="%s vs reference LALR(1), input %d" % (pa, inp), cost=60, flags=["-looplimit", "200000"], only_kf=kf, kf_ids=kfids)
            first = first or j
            out.append(j)
    if first:
        out.append(Job(first.rel, first.pkgname, first.harness, "VerifPairBisim", {"input": 0, "samerule": 1}, tag="bisim twin", twin=True,
                       load_dir=first.load_dir, import_path=first.import_path, extra_overlay=first.extra_overlay))
    return out


def describe(ctx):
    return {
        "explanation": "For every corpus grammar (plain, precedence, and conflicted ones compiled with %expect equal to independently computed counts) an independent reference "
                       "automaton is built (canonical LR(1) item sets merged by core, documented precedence rules, single-reduction states without terminal shifts reduce on every "
                       "terminal) and printed as a table package; z3 then checks a one-step bisimulation between the real generated parser (lalr/gotoState through shims) and the "
                       "reference for a symbolic related state pair and symbol: same action kind, same rule, related targets, corresponding final states. Equal actions on all "
                       "reachable cells means equal lookahead sets where they matter. Kernels: reportConflicts on symbolic counts vs %expect/%expect-rr; computeEmpty on a symbolic "
                       "grammar skeleton. Conflict counts: each conflicted grammar must compile exactly when %expect equals the reference counts (native comparison of compiler "
                       "verdicts, reported separately in notes).",
        "bounds": {"grammars": "%d corpus grammars + %d conflicted grammars x 3-5 %%expect variants" % (len(corpus.PLAIN + corpus.PREC), len(CONFLICT)),
                   "bisimulation": "every related pair x every symbol per input (inputs of any length)", "kernels": "<=2 recorded conflicts, counts in [0,4); 3 nonterminals, <=4 rules of <=2 symbols"},
        "outside": ["grammars outside the corpus (buildLA/computeSets are exercised only through them)", "cells holding a shift and several reductions are attributed as one S/R conflict by the reference"],
        "trusted": ["go/ssa", "symgo executor", "z3", "vlib/reflalr.py (reference LALR(1) builder)", "shims", "induction over the run"],
        "assumptions": [],
    }
