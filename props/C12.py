import os

from vlib.driver import Job, VERIF

LEXERS = {
    # pkg dir: (package name, has Line, has Column, gap kind, prefixes, suffixes)
    "json": ("json", True, False, 2, ["", "﻿", "/*", "\"", "[1, "], ["", "*/", "\"", " "]),
    "simple": ("simple", True, False, 1, ["", "﻿", "simpl", "\\"], ["", "e ", "\n"]),
    "test": ("test", False, False, 0, ["", "/*", "test", "%q\n", "Z\\u00"], ["", "*/", "-->", "\n%q"]),
    "tm": ("tm", True, True, 0, ["", "a\n", "{", "{\"", "/", "'", "%", "# c\n", "{/*", "{'\\"], ["", "}", "\"}", "/", "\n", "*/}", "} a", "'} a"]),
    "js": ("js", True, False, 0, ["", "﻿", "/*", "`", "a /", "'", "<", "0x"], ["", "*/", "`", "/g", "'"]),
}


EXTRA_QUICK = {
    "tm": [("{", "} a"), ("{'\\", "'} a"), ("{//\n", "} a"), ("foo-", " a")],
    "json": [("[1.", "2]"), ("1e", " 2")],
}
for _d, _l in EXTRA_QUICK.items():
    for _pre, _suf in _l:
        if _pre not in LEXERS[_d][4]:
            LEXERS[_d][4].append(_pre)
        if _suf not in LEXERS[_d][5]:
            LEXERS[_d][5].append(_suf)


def files_for(ctx, d):
    pkg, hasline, hascol, gap, pres, sufs = LEXERS[d]
    src = open(os.path.join(VERIF, "harness", "c12_shipped.go.txt")).read()
    src = src.replace("package PKG", "package " + pkg).replace("IMPORTTOKEN", "github.com/inspirer/textmapper/parsers/%s/token" % d)
    src = src.replace("HASLINE", "true" if hasline else "false").replace("HASCOLUMN", "true" if hascol else "false").replace("GAPKIND", str(gap))
    extra = ["func verifPrefix(i int) string { return [...]string{%s}[i] }" % ", ".join(go_str(p) for p in pres),
             "func verifSuffix(i int) string { return [...]string{%s}[i] }" % ", ".join(go_str(p) for p in sufs),
             "func verifLine(l *Lexer) int { return %s }" % ("l.Line()" if hasline else "0"),
             "func verifColumn(l *Lexer) int { return %s }" % ("l.Column()" if hascol else "0")]
    f = os.path.join(ctx.scratch, "c12_%s.go" % d)
    open(f, "w").write(src + "\n" + "\n".join(extra) + "\n")
    return f


def go_str(s):
    return '"' + "".join(("\\x%02x" % b) for b in s.encode("utf-8")) + '"'


def jobs(ctx):
    q = ctx.tier == "quick"
    out = []
    for d, (pkg, hasline, hascol, gap, pres, sufs) in LEXERS.items():
        f = files_for(ctx, d)
        rel = "parsers/" + d
        heavy = d in ("js", "tm", "test")
        combos = []
        if q:
            # quick: the bare symbolic bytes, then each context prefix with one symbolic byte and the matching suffix
            if heavy:
                combos.append((0, 0, 1, 0))
                if d != "js":
                    combos.append((0, 0, 2, 1))
            else:
                combos.append((0, 0, 2, 0))
            for pi in range(1, min(len(pres), 3 if d == "js" else 4)):
                combos.append((pi, min(pi, len(sufs) - 1), 1, 0))
            # contexts in which one symbolic byte decides what is counted: a token after a code block (skipAction), a newline
            # right after a comment line inside a code block, a newline as the lookahead character of a backward rewind
            for pre, suf in EXTRA_QUICK.get(d, []):
                combos.append((pres.index(pre), sufs.index(suf), 1, 0))
        else:
            # thorough: every prefix with its matching suffix (json/simple also without suffix, up to 2 bytes), the bare bytes one longer than quick
            for pi in range(len(pres)):
                for si in sorted({min(pi, len(sufs) - 1)} | (set() if heavy else {0})):
                    nmax = (2 if pi == 0 else 1) if heavy else 2
                    for n in range(0 if pi + si == 0 else 1, nmax + 1):
                        combos.append((pi, si, n, 1 if n >= 2 else 0))
            for pre, suf in EXTRA_QUICK.get(d, []):
                combos.append((pres.index(pre), sufs.index(suf), 1, 0))
            if not heavy:
                combos.append((0, 0, 3, 1))
        for pi, si, n, ascii_ in combos:
            for nn in (range(0, n + 1) if (pi, si) == (0, 0) else (n,)):
                out.append(Job(rel, pkg, f, "VerifC12Lexer", {"n": nn, "prefix": pi, "suffix": si, "ascii": ascii_},
                               tag="%s prefix=%d suffix=%d n=%d%s" % (d, pi, si, nn, " ascii" if ascii_ else ""), cost=(12.0 if heavy else 6.0) ** nn + 3,
                               flags=["-looplimit", "100000", "-conccap", "300"], deadline=None if q else 900))
        out.append(Job(rel, pkg, f, "VerifC12Lexer", {"n": 1, "prefix": 0, "suffix": 0, "ascii": 1}, tag=d + " twin", twin=True, flags=["-looplimit", "100000", "-conccap", "300"]))
    return out


def describe(ctx):
    return {
        "explanation": "The shipped generated lexers (json, simple, test, tm with its lexer_actions.go, js with its state machine) run on sources made of a concrete context prefix, "
                       "k symbolic bytes and a concrete suffix (contexts: BOM, open comments, strings, code blocks, template literals, regex position...). Next() is called at most "
                       "len+3 times: end-of-input must be reached and repeat, every other token is non-empty, tokens come in source order without overlap and inside the source, "
                       "Line() equals 1 + the number of newlines before the token's first byte (Column() likewise for tm), and for json/simple the skipped text between tokens is "
                       "whitespace (and complete comments).",
        "bounds": {"symbolic bytes": "quick: k<=2 free bytes (k<=3 ASCII for json/simple) without context, 1 free byte inside 3 contexts per lexer; thorough: every prefix with its matching suffix, k<=2 (json, simple) / 1 (test, tm, js); 3 (2) ASCII bytes without context",
                   "contexts": "5-9 prefixes x 3-6 suffixes per lexer (thorough)"},
        "outside": ["longer symbolic parts", "generated lexers of random grammars (C11 corpus)", "gap contents of test/tm/js (their space rules are state dependent)"],
        "trusted": ["go/ssa", "symgo executor", "z3"],
        "assumptions": [],
    }
