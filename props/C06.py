from vlib import corpus, grammars
from vlib.driver import Job
from props.C05 import pair_packages

EXTRA = [
    corpus.G("m01", "xyt", ["Xa", "Xb", "Xc"], [("Xa", "Xb y"), ("Xb", "Xc x"), ("Xb", "t"), ("Xc", "Xa x"), ("Xc", "t t")]),
    corpus.G("m02", "abc", ["Sx", ("Px", True)], [("Sx", "Px c"), ("Px", "a b"), ("Px", "a Px b")]),
    corpus.G("m03", "abcd", ["Sx"], [("Sx", "a Bx"), ("Sx", "b Bx"), ("Sx", "c Cx"), ("Sx", "d Cx"), ("Bx", "a a"), ("Cx", "a a")]),      # mergeable tails
    corpus.G("m04", "abc", ["Sx", "Tx"], [("Sx", "a Ux"), ("Tx", "b Ux"), ("Ux", "c"), ("Ux", "c Ux")]),
    corpus.G("m05", "xy", [("Nx", True)], [("Nx", "Nx x"), ("Nx", "y x")]),
    corpus.G("m06", "ac", ["Sx"], [("Sx", "Sx a"), ("Sx", "a"), ("Sx", "Cx a"), ("Cx", "c")]),                                            # left-recursive input: its pre-final state has a twin without the eoi edge
    corpus.G("m07", "abc", ["Sx", "Tx"], [("Sx", "Sx b"), ("Sx", "Tx"), ("Tx", "Tx a"), ("Tx", "c"), ("Tx", "c Sx c")]),                  # two left-recursive inputs, one nested in the other                                                               # no-eoi input whose final state looks like an ordinary one
]


def jobs(ctx):
    q = ctx.tier == "quick"
    out = []
    gs = corpus.PLAIN + corpus.PREC + EXTRA
    pairs = [("plain", "min")] if q else [("plain", "min"), ("opt", "minopt")]
    nmax = 4 if q else 6
    first = None
    for g, oa, ob, pair, files, extra, ma, mb in pair_packages(ctx, gs, pairs):
        kw = dict(load_dir=ctx.vgen_root, import_path="vgen/" + pair, extra_overlay=extra, flags=["-looplimit", "200000"])
        kf, kfids = None, None
        if g["name"] in ("p08", "m01"):
            kf, kfids = "minimize-merges-final-states-of-different-inputs", ["final-states-correspond", "same-verdict", "same-action-kind"]
        for inp in range(len(g["inputs"])):
            j = Job(pair, pair, files, "VerifPairBisim", {"input": inp, "samerule": 0}, tag="%s bisim input=%d" % (pair, inp), cost=40, only_kf=kf, kf_ids=kfids, **kw)
            first = first or j
            out.append(j)
            T = len(g["terms"])
            for n in range(0, nmax + 1):
                if T ** n > (150 if q else 5000):
                    continue
                out.append(Job(pair, pair, files, "VerifPairRun", {"n": n, "input": inp, "conc": 1 if "opt" in oa else 0},
                               tag="%s run input=%d n=%d" % (pair, inp, n), cost=float(T) ** n + 5, only_kf=kf, kf_ids=kfids, **kw))
    if first:
        out.append(Job(first.rel, first.pkgname, first.harness, "VerifPairBisim", {"input": 0, "samerule": 0}, tag="bisim twin", twin=True,
                       load_dir=first.load_dir, import_path=first.import_path, extra_overlay=first.extra_overlay))
    return out


def describe(ctx):
    return {
        "explanation": "For every corpus grammar the parser generated with minimizeDFA is compared with the unminimised one from every input's entry pair (i,i) as the "
                       "generated Parse functions use them: a candidate relation is built by product exploration, and z3 checks for a symbolic related state pair and a "
                       "symbolic symbol that both real lookup functions (lalr/gotoState through shims mirroring the template) take compatible steps (same kind; "
                       "reductions of rules with equal length, left-hand side, node type and action; shifts/gotos into related pairs) and that final states correspond. "
                       "In addition both real parse loops run on the same symbolic token array (same verdict, error token, events).",
        "bounds": {"bisimulation": "every related pair x every symbol, per input, for each of %d corpus grammars: covers token sequences of any length" % len(corpus.PLAIN + corpus.PREC + EXTRA),
                   "runs": "n<=4 quick, 6 thorough"},
        "outside": ["grammars outside the corpus", "synthetic lookahead inputs (C08 corpus)"],
        "trusted": ["go/ssa", "symgo executor", "z3", "shims mirroring the template decode", "the induction argument (stacks pointwise related)"],
        "assumptions": [],
    }
