import os

from vlib import corpus, grammars
from vlib.driver import Job, VERIF
from props.C01 import OPTSETS

REL, PKG, HK = "lalr", "lalr", "c05_pack.go"


def pair_packages(ctx, gs, pairs, sub="vgen"):
    """Generates A/B packages for every grammar and (optA, optB) pair plus a pair package with the harness.
    Returns [(g, optA, optB, pairpkg, files, extra_overlay)] for accepted grammars."""
    needed = sorted({o for ab in pairs for o in ab})
    items, index = [], []
    gs = [dict(g, ntarrows=g.get("ntarrows") or {nt: "N" + nt for nt in grammars.nonterminals(g)}) for g in gs]   # every reduction reports an event
    for g in gs:
        grammars.check_grammar(g)
        for on in needed:
            pkg = "%s_%s" % (g["name"], on)
            gg = dict(g)
            gg["pkg"] = pkg
            items.append({"name": pkg, "tm": grammars.print_tm(gg, OPTSETS[on]), "stub": True})
    root, metas = grammars.build_scratch(ctx, items, sub)
    ctx.vgen_root = root
    common = open(os.path.join(VERIF, "harness", "pair_common.go.txt")).read()
    out = []
    for g in gs:
        for oa, ob in pairs:
            pa, pb = "%s_%s" % (g["name"], oa), "%s_%s" % (g["name"], ob)
            ma, mb = metas[pa], metas[pb]
            if not (ma["ok"] and mb["ok"]):
                if not g.get("expect_conflict"):
                    ctx.notes.append("corpus grammar %s rejected: %s" % (g["name"], (ma["errors"] or mb["errors"])[:1]))
                continue
            pair = "pair_%s_%s_%s" % (g["name"], oa, ob)
            d = os.path.join(root, pair)
            os.makedirs(d, exist_ok=True)
            open(os.path.join(d, "doc.go"), "w").write("// Package %s hosts a verification harness.\npackage %s\n" % (pair, pair))
            f1 = os.path.join(ctx.scratch, "h_%s_common.go" % pair)
            f2 = os.path.join(ctx.scratch, "h_%s_data.go" % pair)
            open(f1, "w").write(common.replace("package PKG", "package " + pair).replace("PKGA", pa).replace("PKGB", pb))
            open(f2, "w").write(grammars.pair_data_file(g, ma, mb, pair))
            extra = {}
            for pk, m in ((pa, ma), (pb, mb)):
                sf = os.path.join(ctx.scratch, "shim_%s.go" % pk)
                if not os.path.exists(sf):
                    open(sf, "w").write(grammars.shim_file(m, pk, os.path.join(root, pk)))
                extra[os.path.join(root, pk, "zz_verif_shim.go")] = sf
                # the stub lexer calls verifConcretize: every generated package needs the prelude
                pf = os.path.join(ctx.scratch, "prelude_%s.go" % pk)
                if not os.path.exists(pf):
                    open(pf, "w").write(open(os.path.join(VERIF, "harness", "prelude_dep.go.txt")).read().replace("package PKG", "package " + pk))
                    open(pf + ".native", "w").write(open(os.path.join(VERIF, "harness", "prelude_dep_native.go.txt")).read().replace("package PKG", "package " + pk))
                extra[os.path.join(root, pk, "zz_verif_prelude_dep.go")] = pf
            out.append((g, oa, ob, pair, [f1, f2], extra, ma, mb))
    return out


def jobs(ctx):
    q = ctx.tier == "quick"
    out = []
    # 1. kernels on the repository package
    shapes = [(1, [1, 2, 3]), (2, [5, 6, 9, 10, 7, 13, 11, 14]), (3, [21, 22, 25, 37, 26, 41])]
    if not q:
        shapes += [(3, [42, 23, 29, 53, 27, 63]), (4, [85, 86, 89, 101, 149])]
    for nl, shs in shapes:
        for sh in shs:
            for maxpos, maxval in ((2, 1), (4, 2)) if (nl <= 2 or not q) else ((3, 1),):
                out.append(Job(REL, PKG, HK, "VerifC05Pack", {"nl": nl, "shape": sh, "maxpos": maxpos, "maxval": maxval},
                               tag="pack nl=%d shape=%d maxpos=%d maxval=%d" % (nl, sh, maxpos, maxval), cost=8.0 ** nl))
    # wide value range: lets the solver construct hash collisions between different lines of equal length
    for nl, sh in ((2, 5), (3, 21), (3, 22)) if q else ((2, 5), (2, 6), (3, 21), (3, 22), (3, 25), (3, 37), (4, 85)):
        out.append(Job(REL, PKG, HK, "VerifC05Pack", {"nl": nl, "shape": sh, "maxpos": 3, "maxval": 40}, tag="pack nl=%d shape=%d wide values" % (nl, sh), cost=8.0 ** nl))
    for n in (1, 2, 3, 4) if q else (1, 2, 3, 4, 5, 6):
        out.append(Job(REL, PKG, HK, "VerifC05PickDefault", {"n": n, "maxval": 2}, tag="pickDefault n=%d" % n, cost=3.0 ** n))
    out.append(Job(REL, PKG, HK, "VerifC05Pack", {"nl": 2, "shape": 5, "maxpos": 2, "maxval": 1}, tag="pack twin", twin=True))
    out.append(Job(REL, PKG, HK, "VerifC05PickDefault", {"n": 2, "maxval": 1}, tag="pickDefault twin", twin=True))
    # 2. generated parsers: compressed vs plain encoding of the same automaton
    gs = corpus.PLAIN + corpus.PREC
    pairs = [("plain", "opt"), ("plain", "optdr")]
    nmax = 4 if q else 6
    for g, oa, ob, pair, files, extra, ma, mb in pair_packages(ctx, gs, pairs):
        dr = 1 if ob == "optdr" else 0
        kw = dict(load_dir=ctx.vgen_root, import_path="vgen/" + pair, extra_overlay=extra, flags=["-looplimit", "200000"])
        out.append(Job(pair, pair, files, "VerifPairCells", {"dr": dr}, tag="%s cells" % pair, cost=30, **kw))
        T = len(g["terms"])
        for inp in range(len(g["inputs"])):
            for n in range(0, nmax + 1):
                if T ** n > (150 if q else 5000):
                    continue
                out.append(Job(pair, pair, files, "VerifPairRun", {"n": n, "input": inp, "conc": 1}, tag="%s run input=%d n=%d" % (pair, inp, n), cost=float(T) ** n + 5, **kw))
    if out:
        j = [x for x in out if x.entry == "VerifPairCells"][0]
        out.append(Job(j.rel, j.pkgname, j.harness, "VerifPairCells", {"dr": 0}, tag="cells twin", twin=True, load_dir=j.load_dir, import_path=j.import_path, extra_overlay=j.extra_overlay))
    return out


def describe(ctx):
    return {
        "explanation": "(1) lalr.pack/allocator.place/hash on symbolic lines (positions and values are solver variables): every line must decode, for a symbolic probe "
                       "position, to exactly its own pairs under the decode rule the generated parsers use; pickDefault returns a most frequent element. "
                       "(2) For each corpus grammar the parser generated with optimizeTables (and with optimizeTables+defaultReduce) is compared with the plain one: "
                       "for a symbolic (state, symbol) the decoded action/goto of both (through in-package shims that mirror the template's decode) must agree, "
                       "with defaultReduce only error->reduce is tolerated and explicit nonassoc errors stay errors; and both parsers run on the same symbolic "
                       "token array and must agree on verdict, error token and events.",
        "bounds": {"pack": "<=3 lines (thorough 4) of 1..3 pairs, positions <=4, values in [-2,2]", "pickDefault": "arrays of <=4 (6) values in [-2,2]",
                   "cells": "every state x every symbol of each corpus grammar (unbounded in input length by induction on the run)", "runs": "n<=4 quick, 6 thorough"},
        "outside": ["grammars outside the corpus (%d grammars)" % len(corpus.PLAIN + corpus.PREC), "larger packing problems"],
        "trusted": ["go/ssa", "symgo executor", "z3", "the shims' 8-line mirror of the template decode (also exercised by the runs of the real parse loop)"],
        "assumptions": [],
    }
