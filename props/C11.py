import os

from vlib import grammars
from vlib.driver import Job, VERIF

# rule kinds: tok, space, class, kw (a literal that a (class) rule also matches: returned through the keyword switch)
LEX = [
    {"name": "l01", "opts": {}, "rules": [("id", "[a-z]+", "class", 0), ("kwIf", "if", "kw", 0), ("kwIn", "in", "kw", 0), ("num", "[0-9]+", "tok", 0), ("ws", "[ \\t\\n]+", "space", 0), ("plus", "\\+", "tok", 0), ("pluseq", "\\+=", "tok", 0)],
     "prefixes": [b"", b"if ", b"x\n", b"+"]},
    {"name": "l02", "opts": {"tokenColumn": True}, "rules": [("word", "[a-z]+", "tok", 0), ("nl", "\\n", "tok", 0), ("ws", "[ \\t]+", "space", 0), ("cm", "\\/\\*([^*]|\\*+[^*\\/])*\\*+\\/", "space", 0), ("sl", "\\/", "tok", 0)],
     "prefixes": [b"", b"a\n", b"/*", b"/* *"]},
    {"name": "l03", "opts": {"scanBytes": True}, "rules": [("hi", "[\\x80-\\xff]+", "tok", 0), ("lo", "[a-z]", "class", 0), ("kwK", "k", "kw", 0), ("sp", " ", "space", 0)], "prefixes": [b"", b"k", b"\xc3"]},
    {"name": "l04", "opts": {"caseInsensitive": True}, "rules": [("sel", "select", "tok", 0), ("id", "[a-z_]+", "tok", -1), ("ws", "[ ]+", "space", 0)], "prefixes": [b"", b"SELEC", b"sele"]},
    {"name": "l05", "opts": {"nonBacktracking": True}, "rules": [("a2", "a{2,3}", "tok", 0), ("a1", "a", "tok", 0), ("b", "b+", "tok", 0), ("ab", "ab", "tok", 0)], "prefixes": [b"", b"a", b"aa"]},
    {"name": "l06", "opts": {}, "rules": [("idu", "[\\p{L}_][\\p{L}\\p{Nd}_]*", "class", 0), ("kwE", "é", "kw", 0), ("ws", "[ \\n]+", "space", 0), ("arrow", "→", "tok", 0)], "prefixes": [b"", "é".encode(), b"\xe2\x86"]},
    {"name": "l07", "opts": {"tokenLine": False}, "rules": [("abcd", "abcd", "tok", 0), ("ab", "ab", "tok", 0), ("x", "[a-d]", "tok", -1), ("ws", " ", "space", 0)], "prefixes": [b"", b"abc", b"ab"]},
    {"name": "l08", "opts": {"scanBytes": True, "caseInsensitive": True, "tokenColumn": True}, "rules": [("kw", "ask", "tok", 0), ("id", "[a-z]+", "tok", -1), ("nl", "\\n", "space", 0)], "prefixes": [b"", b"AS", b"a\n"]},
    # an explicit invalid_token rule in an otherwise inlinable grammar: its match (through a backtracking checkpoint of 'a') is a token, not a failure
    {"name": "l09", "opts": {}, "rules": [("a", "a", "tok", 0), ("invalid_token", "abc", "tok", 0), ("ws", " ", "space", 0)], "prefixes": [b"", b"ab", b"a"]},
]


def esc_go(s):
    return '"' + s.replace("\\", "\\\\").replace('"', '\\"') + '"'


def print_tm(lx):
    L = ["language %s(go);" % lx["name"], "", 'lang = "%s"' % lx["name"], 'package = "vgen/%s"' % lx["name"], "genParser = false"]
    for k, v in lx["opts"].items():
        L.append("%s = %s" % (k, "true" if v is True else "false" if v is False else v))
    L += ["", ":: lexer", ""]
    for name, pat, kind, prec in lx["rules"]:
        attrs = {"space": " (space)", "class": " (class)"}.get(kind, "")
        L.append("%s: /%s/%s%s" % (name, pat, " %d" % prec if prec else "", attrs))
    return "\n".join(L) + "\n"


def data(lx, meta, pkg):
    symid = {n: i for i, n in enumerate(meta["syms"])}
    o = lx["opts"]
    L = ["package " + pkg, ""]
    L.append("const verifScanBytes = %s" % ("true" if o.get("scanBytes") else "false"))
    L.append("const verifFold = %s" % ("true" if o.get("caseInsensitive") else "false"))
    L.append("const verifHasLine = %s" % ("false" if o.get("tokenLine") is False else "true"))
    L.append("const verifHasColumn = %s" % ("true" if o.get("tokenColumn") else "false"))
    L.append("var verifNamed = map[string]string{}")
    rules = [r for r in lx["rules"] if r[2] != "kw"]
    L.append("var verifLexRules = []verifLexRule{%s}" % ", ".join("{%s, %d, %d, %d}" % (go_pat(p), symid[n], pr, {"tok": 0, "space": 1, "class": 2}[k]) for n, p, k, pr in rules))
    L.append("var verifKeywords = []verifKeyword{%s}" % ", ".join("{%s, %d}" % (go_pat(p), symid[n]) for n, p, k, pr in lx["rules"] if k == "kw"))
    L.append("const verifNumPrefixes = %d" % len(lx["prefixes"]))
    L.append("func verifPrefix(i int) string { return [...]string{%s}[i] }" % ", ".join('"' + "".join("\\x%02x" % b for b in p) + '"' for p in lx["prefixes"]))
    L.append("func verifLine(l *Lexer) int { return %s }" % ("0" if o.get("tokenLine") is False else "l.Line()"))
    L.append("func verifColumn(l *Lexer) int { return %s }" % ("l.Column()" if o.get("tokenColumn") else "0"))
    return "\n".join(L) + "\n"


def go_pat(p):
    return "`" + p + "`"


def jobs(ctx):
    q = ctx.tier == "quick"
    out = []
    items = [{"name": lx["name"], "tm": print_tm(lx), "stub": False} for lx in LEX]
    root, metas = grammars.build_scratch(ctx, items)
    common = open(os.path.join(VERIF, "harness", "c11_lexer.go.txt")).read()
    for lx in LEX:
        m = metas[lx["name"]]
        pkg = lx["name"]
        if not m["ok"]:
            ctx.problems.append("lexer corpus grammar %s rejected: %s" % (pkg, m["errors"][:2]))
            continue
        f1 = os.path.join(ctx.scratch, "h_%s.go" % pkg)
        f2 = os.path.join(ctx.scratch, "h_%s_data.go" % pkg)
        open(f1, "w").write(common.replace("package PKG", "package " + pkg).replace("IMPORTTOKEN", "vgen/%s/token" % pkg))
        open(f2, "w").write(data(lx, m, pkg))
        kw = dict(load_dir=root, import_path="vgen/" + pkg, flags=["-looplimit", "10000000", "-conccap", "300", "-maxinstrs", "400000000"])
        nonascii = lx["opts"].get("scanBytes")
        heavy = lx["name"] == "l06"
        params = {"nmax0": ((1 if heavy else 2) if q else (2 if heavy else 3)), "nmaxp": (1 if q else 2), "ascii": 1 if heavy else 0, "freemax": 2 if nonascii else 1}
        out.append(Job(pkg, pkg, [f1, f2], "VerifC11Lexer", params, tag="%s all prefixes" % pkg, cost=100, deadline=600 if q else 1500, **kw))
        out.append(Job(pkg, pkg, [f1, f2], "VerifC11Lexer", dict(params, nmax0=1, nmaxp=1), tag=pkg + " twin", twin=True, deadline=600, **kw))
    return out


def describe(ctx):
    return {
        "explanation": "Lexer grammars (keywords specialised from (class) rules incl. a non-ASCII keyword, space rules, comments needing backtracking, byte mode with classes over 0x80-0xff, "
                       "case-insensitive, nonBacktracking, tokenLine off, tokenColumn on, \\p{L} classes that force the compressed rune map) are compiled and generated by the real "
                       "tree. The generated Lexer.Init/Next/Pos/Line/Column/rewind (+ mapRune, keyword hash switch, backtracking tables) run on a concrete prefix followed by symbolic "
                       "bytes; every token (type, byte range, line, column) must equal that of a reference tokenizer which rebuilds lex.Tables from the same rule texts inside the "
                       "executor and repeatedly applies lex.Tables.Scan (the function C09 checks against the rules' denotational semantics), substituting keywords and skipping space rules.",
        "bounds": {"symbolic bytes": "quick: k<=2 without prefix, k<=1 after each of 2-3 context prefixes (free bytes for k<=1, k<=2 in byte-mode grammars, ASCII beyond; the \\p{L} grammar gets non-ASCII only through its prefixes); thorough k<=3/2", "grammars": "%d lexer grammars" % len(LEX)},
        "outside": ["start conditions (need hand-written state switching code)", "grammars outside the corpus", "the table relation over all code points described in DESIGN (not built)"],
        "trusted": ["go/ssa", "symgo executor", "z3", "lex.Tables.Scan as reference (C09)", "the corpus' classification of keyword rules"],
        "assumptions": [],
    }
