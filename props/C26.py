from vlib.driver import Job

REL, PKG, H = "util/graph", "graph", "c26_graph.go"
ENTRIES = ("VerifC26Tarjan", "VerifC26Closure", "VerifC26Transpose", "VerifC26LongestPath")


def jobs(ctx):
    out = []
    ns = (2, 3) if ctx.tier == "quick" else (2, 3, 4)
    for e in ENTRIES:
        for n in ns:
            if e != "VerifC26Tarjan":
                pass
            variants = [(1, 0), (1, 1)]
            if n <= 2 or (e in ("VerifC26Transpose", "VerifC26Tarjan") and n <= 3 and ctx.tier != "quick"):
                variants.append((2, 0))
            if n == 4:
                variants = [(1, 0)] if e != "VerifC26Tarjan" else [(1, 0), (1, 1)]
            for maxm, rev in variants:
                out.append(Job(REL, PKG, H, e, {"n": n, "maxm": maxm, "rev": rev}, tag="%s n=%d maxm=%d rev=%d" % (e, n, maxm, rev),
                               cost=(3.0 if maxm == 2 else 2.0) ** (n * n)))
        out.append(Job(REL, PKG, H, e, {"n": 2, "maxm": 1, "rev": 0}, tag=e + " twin", twin=True))
    if ctx.tier != "quick":
        # n = 1 and n = 0 for the functions whose statement covers every graph
        for e in ENTRIES[1:]:
            for n in (0, 1):
                out.append(Job(REL, PKG, H, e, {"n": n, "maxm": 2, "rev": 0}, tag="%s n=%d" % (e, n)))
    return out


def describe(ctx):
    return {
        "explanation": "graph.Tarjan, Matrix.Closure/Graph, Transpose and LongestPath executed symbolically on a graph whose n*n edge multiplicities "
                       "are solver variables; oracle = Warshall reachability over the same symbolic bits (components are exactly the mutual-"
                       "reachability classes, reported once, in reverse topological order; closure edge iff path of length>=1; transpose "
                       "preserves multiplicities; LongestPath nil iff a vertex reaches itself, else a real path of the reference maximum length).",
        "bounds": {"vertices": "quick n in {2,3}; thorough n in {0..4} (Tarjan n>=2 as the statement says)", "edge multiplicity": "0/1 (0..2 for n<=2 and thorough n=3)",
                   "edge order": "ascending and descending target order"},
        "outside": ["graphs with more than 4 vertices", "adjacency lists in arbitrary (non-monotone) order"],
        "trusted": ["go/ssa", "symgo executor", "z3", "harness oracle verifReach (Warshall)"],
        "assumptions": ["int is 64-bit"],
    }
