from vlib.driver import Job

REL, PKG, H = "parsers/tm/ast", "ast", "c22_front.go"
NT = 8
FL = ["-looplimit", "1000000", "-conccap", "300"]


def jobs(ctx):
    q = ctx.tier == "quick"
    out = []
    for n in (0, 1, 2, 3, 4) if q else (0, 1, 2, 3, 4, 5):
        out.append(Job(REL, PKG, H, "VerifC22LineColumn", {"n": n}, tag="line/column n=%d" % n, cost=4.0 ** n))
    out.append(Job(REL, PKG, H, "VerifC22LineColumn", {"n": 2}, tag="line/column twin", twin=True))
    for t in range(NT):
        for back in (((0, 2) if t in (0, 1, 2, 5) else (0,)) if q else (0, 2)):
            for ow in ((0,) if q else (0, 1)):
                out.append(Job(REL, PKG, H, "VerifC22Front", {"tmpl": t, "back": back, "k": 1, "overwrite": ow, "ascii": 0 if back == 0 else 1},
                               flags=FL, tag="front end tmpl=%d back=%d overwrite=%d" % (t, back, ow), cost=60 + 40 * back, deadline=200 if q else 900))
    out.append(Job(REL, PKG, H, "VerifC22Front", {"tmpl": 0, "back": 0, "k": 1, "overwrite": 0, "ascii": 1}, flags=FL, tag="front end twin", twin=True))
    # the compile stages on eight grammar texts with one byte chosen by the solver (regexp escapes and classes, %input, lookahead flags,
    # lexeme attributes, rule operators, options, start conditions)
    FC = ["-looplimit", "10000000", "-conccap", "300", "-maxinstrs", "400000000"]
    for t in range(8):
        for co in (0,) if q else (0, 1):
            out.append(Job("compiler", "compiler", "c22_compile.go", "VerifC22Compile", {"tmpl": t, "ascii": 1 if q else 0, "checkonly": co}, flags=FC,
                           tag="compile tmpl=%d checkonly=%d" % (t, co), cost=20))
    out.append(Job("compiler", "compiler", "c22_compile.go", "VerifC22Compile", {"tmpl": 0, "ascii": 1, "checkonly": 0}, flags=FC, tag="compile twin", twin=True))
    return out


def describe(ctx):
    return {
        "explanation": "(1) ast.lineOffsets + Node.LineColumn/SourceRange on a symbolic text and offset: line and column must be those of the byte offset. (2) the grammar front end "
                       "(tm Lexer with its actions, TokenStream, the generated tm Parser with StopOnFirstError, the tree builder) runs on eight grammar texts in which one or two symbolic "
                       "bytes are inserted or overwrite the text 0..8 bytes before the end: no panic or process exit; a failure is a tm.SyntaxError whose range lies inside the text "
                       "and whose line matches its offset; a success yields a tree spanning the text. (3) compiler.Compile (options, lexer, syntax loader, templates, expansion, LALR) on eight "
                       "grammar texts in which one byte is free (inside a regexp escape, a character class, an %input directive, a rule next to an unprovided lookahead flag, a lexeme "
                       "attribute, a rule body, an option name, a start-condition list): no panic, no process exit (log.Fatal is a violation), and every reported problem names the file "
                       "and has a range inside the text whose line and column agree with its byte offset. In (3) the byte values are enumerated by the executor through solver "
                       "concretisation; every run is concrete afterwards.",
        "bounds": {"line/column": "texts of <=4 (5) free bytes, every offset", "front end": "8 templates x hole 0/2 bytes before the end (thorough: every template with both holes, inserted and overwriting), 1 symbolic byte",
                   "compile": "8 templates x 1 free byte (ASCII quick, all 256 values thorough; thorough also with CheckOnly)"},
        "outside": ["grammar texts beyond the templates: the compile stages are pointer-rich whole-program code and are covered only on the eight one-byte families above (and, for valid "
                    "grammars, through the corpora of the other properties); most of their diagnostics and log.Fatal sites are NOT covered", "mutations in the middle of larger grammars"],
        "trusted": ["go/ssa", "symgo executor", "z3"],
        "assumptions": [],
    }
