from vlib.driver import Job

REL, PKG, H = "parsers/tm/ast", "ast", "c22_front.go"
NT = 8
FL = ["-looplimit", "1000000", "-conccap", "300"]


def jobs(ctx):
    q = ctx.tier == "quick"
    out = []
    for n in (0, 1, 2, 3, 4) if q else (0, 1, 2, 3, 4, 5, 6):
        out.append(Job(REL, PKG, H, "VerifC22LineColumn", {"n": n}, tag="line/column n=%d" % n, cost=4.0 ** n))
    out.append(Job(REL, PKG, H, "VerifC22LineColumn", {"n": 2}, tag="line/column twin", twin=True))
    for t in range(NT):
        for back in (((0, 2) if t in (0, 1, 2, 5) else (0,)) if q else (0, 1, 2, 3, 5, 8)):
            for ow in ((0,) if q else (0, 1)):
                out.append(Job(REL, PKG, H, "VerifC22Front", {"tmpl": t, "back": back, "k": 1, "overwrite": ow, "ascii": 0 if back == 0 else 1},
                               flags=FL, tag="front end tmpl=%d back=%d overwrite=%d" % (t, back, ow), cost=60 + 40 * back, deadline=200 if q else 3000))
        if not q:
            out.append(Job(REL, PKG, H, "VerifC22Front", {"tmpl": t, "back": 0, "k": 2, "overwrite": 0, "ascii": 1}, flags=FL, tag="front end tmpl=%d k=2" % t, cost=400, deadline=3000))
    out.append(Job(REL, PKG, H, "VerifC22Front", {"tmpl": 0, "back": 0, "k": 1, "overwrite": 0, "ascii": 1}, flags=FL, tag="front end twin", twin=True))
    return out


def describe(ctx):
    return {
        "explanation": "(1) ast.lineOffsets + Node.LineColumn/SourceRange on a symbolic text and offset: line and column must be those of the byte offset. (2) the grammar front end "
                       "(tm Lexer with its actions, TokenStream, the generated tm Parser with StopOnFirstError, the tree builder) runs on eight grammar texts in which one or two symbolic "
                       "bytes are inserted or overwrite the text 0..8 bytes before the end: no panic or process exit; a failure is a tm.SyntaxError whose range lies inside the text "
                       "and whose line matches its offset; a success yields a tree spanning the text.",
        "bounds": {"line/column": "texts of <=4 (6) free bytes, every offset", "front end": "8 templates x hole 0/2 (thorough 0..8) bytes before the end, 1 (2) symbolic bytes"},
        "outside": ["the compile stages proper (options, lexer, syntax, expand, lalr): pointer-rich whole-program code that is run only concretely, through the corpora of the other "
                    "properties; their diagnostics' ranges and their log.Fatal sites are NOT covered", "mutations in the middle of larger grammars"],
        "trusted": ["go/ssa", "symgo executor", "z3"],
        "assumptions": [],
    }
