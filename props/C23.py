from vlib.driver import Job

REL, PKG, H = "ls", "ls", "c23_ls.go"
FL = ["-looplimit", "1000000", "-maxinstrs", "400000000", "-maxpaths", "2000000"]


def jobs(ctx):
    q = ctx.tier == "quick"
    out = []
    for n in (0, 1, 2, 3, 4) if q else (0, 1, 2, 3, 4, 5):
        out.append(Job(REL, PKG, H, "VerifC23ResolvePosition", {"n": n}, tag="resolvePosition n=%d" % n, cost=8.0 ** n, deadline=None if q else 3000))
    out.append(Job(REL, PKG, H, "VerifC23ResolvePosition", {"n": 2}, tag="resolvePosition twin", twin=True))
    for steps in (1, 2):
        out.append(Job(REL, PKG, H, "VerifC23History", {"steps": steps, "utf16": 0}, flags=FL, tag="history steps=%d" % steps, cost=80.0 ** steps / 50, deadline=None if steps < 3 else 20000))
    out.append(Job(REL, PKG, H, "VerifC23History", {"steps": 1, "utf16": 1}, flags=FL, tag="definition after a non-ASCII character", cost=5,
                   only_kf="byte-columns-instead-of-utf16", kf_ids=["location-delimits-the-identifier-in-utf16-units"]))
    out.append(Job(REL, PKG, H, "VerifC23History", {"steps": 1, "utf16": 0}, flags=FL, tag="history twin", twin=True))
    out.append(Job(REL, PKG, H, "VerifC23Scripted", {}, flags=FL, tag="scripted histories (definition / change / definition; multi-line diagnostics)", cost=30))
    return out


def describe(ctx):
    return {
        "explanation": "(1) solver-decided kernel: ls.resolvePosition on a symbolic document (every byte value) and a symbolic LSP position against a reference walk in UTF-16 code units "
                       "(surrogate pairs, invalid UTF-8, positions past the end of a line or of the text). (2) sequential histories: every sequence of <=2 messages chosen "
                       "from open / change (0..2 content changes) / close / definition over two documents and five document texts runs through the real Server methods, the real "
                       "compiler and a recording client inside the executor (these runs are concrete per choice path: the executor enumerates the choices, no solver query is "
                       "involved): no panic, each open/change publishes exactly one diagnostics message carrying that message's version and URI, diagnostic ranges name existing lines "
                       "and stay inside the line counted in UTF-16 units, definition fails on closed documents and otherwise answers from the latest content with locations that "
                       "delimit the identifier.",
        "bounds": {"resolvePosition": "documents of <=4 (5) bytes, line<=3, character<=5", "histories": "<=2 messages, 2 documents, 5 texts; scripted: open, optional definition, change or re-open with two declarations swapped, definition (17 paths); one document with LALR conflicts on rules written over two lines"},
        "outside": ["JSON-RPC framing and the goroutine schedule of the asynchronous handler chain (the executor has no threads): the 'schedules' part of the quantifier is not addressed",
                    "arbitrary document contents in histories"],
        "trusted": ["go/ssa", "symgo executor (zap logger calls are interpreted)", "z3", "harness UTF-8/UTF-16 reference"],
        "assumptions": [],
    }
