from vlib.driver import Job
import props.C19 as C19

REL, PKG, HK = "parsers/tm/ast", "ast", "c20_builder.go"


def jobs(ctx):
    q = ctx.tier == "quick"
    out = []
    for k in (1, 2, 3, 4, 5) if q else (1, 2, 3, 4, 5, 6):
        out.append(Job(REL, PKG, HK, "VerifC20Builder", {"k": k, "empty": 0, "endempty": 0}, tag="builder k=%d non-empty nodes" % k, cost=4.0 ** k))
    for k in (1, 2, 3, 4) if q else (1, 2, 3, 4, 5):
        out.append(Job(REL, PKG, HK, "VerifC20Builder", {"k": k, "empty": 1, "endempty": 0}, tag="builder k=%d with empty nodes" % k, cost=5.0 ** k))
    out.append(Job(REL, PKG, HK, "VerifC20Builder", {"k": 2, "empty": 1, "endempty": 1}, tag="builder: empty node at end of input", cost=5,
                   only_kf="empty-node-at-end-of-input", kf_ids=["exactly-the-reported-nodes", "every-reported-node-is-in-the-tree"]))
    out.append(Job(REL, PKG, HK, "VerifC20Builder", {"k": 2, "empty": 0, "endempty": 0}, tag="builder twin", twin=True))
    # event streams of real generated parsers (with recovery; plain and fixWhitespace): the nesting assertions live in the C19 harness
    saved = C19.RG
    sub = C19.jobs(type("T", (), {"tier": "thorough" if not q else "quick", "scratch": ctx.scratch, "problems": ctx.problems, "notes": ctx.notes})())
    out += [j for j in sub]
    return out


def describe(ctx):
    return {
        "explanation": "(1) ast.builder.addNode/build (shipped tm instance of go_ast_parse.go.tmpl) on a symbolic event stream: k events whose offsets are solver variables, "
                       "assumed well nested and reported left to right with containers after contents; the tree must contain exactly the k reported nodes plus the file node, every "
                       "child inside its parent, siblings in source order and disjoint, every node attached to its smallest container (the first later event containing it). "
                       "(2) the event streams of real generated parsers with error recovery (C19 corpus) on symbolic token arrays: nodes inside the input, pairwise "
                       "disjoint or nested, containers after contents, for valid and invalid inputs.",
        "bounds": {"builder": "k<=5 (6) non-empty nodes, k<=4 (5) with empty nodes, offsets in [0,8]", "event streams": "as C19: n<=5 quick / 7 thorough"},
        "outside": ["empty nodes sitting exactly on a boundary of another node (their parent is not determined by the statement)", "shipped js/json/test parsers with real lexers", "TokenStream-based parsers"],
        "trusted": ["go/ssa", "symgo executor", "z3"],
        "assumptions": ["disjoint nodes are reported left to right (reductions and token flushes happen in source order)"],
    }
