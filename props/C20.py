from vlib.driver import Job
import props.C19 as C19

REL, PKG, HK = "parsers/tm/ast", "ast", "c20_builder.go"


def jobs(ctx):
    q = ctx.tier == "quick"
    out = []
    for k in (1, 2, 3, 4, 5) if q else (1, 2, 3, 4, 5, 6):
        out.append(Job(REL, PKG, HK, "VerifC20Builder", {"k": k, "empty": 0, "endempty": 0}, tag="builder k=%d non-empty nodes" % k, cost=4.0 ** k))
    for k in (1, 2, 3, 4) if q else (1, 2, 3, 4, 5):
        out.append(Job(REL, PKG, HK, "VerifC20Builder", {"k": k, "empty": 1, "endempty": 0}, tag="builder k=%d with empty nodes" % k, cost=5.0 ** k))
    out.append(Job(REL, PKG, HK, "VerifC20Builder", {"k": 2, "empty": 1, "endempty": 1}, tag="builder: empty node at end of input", cost=5,
                   only_kf="empty-node-at-end-of-input", kf_ids=["exactly-the-reported-nodes", "every-reported-node-is-in-the-tree"]))
    out.append(Job(REL, PKG, HK, "VerifC20Builder", {"k": 2, "empty": 0, "endempty": 0}, tag="builder twin", twin=True))
    # the shipped tm parser with its TokenStream and error recovery on grammar texts with 1 (2) bytes chosen by the solver
    FLT = ["-looplimit", "1000000", "-conccap", "300", "-maxpaths", "400000"]
    for t in range(4):
        for k in (1,) if q else (1, 2):
            out.append(Job(REL, PKG, "c20_tmfront.go", "VerifC20TmEvents", {"tmpl": t, "k": k, "conc": 1}, flags=FLT, tag="tm front end with recovery tmpl=%d k=%d" % (t, k), cost=3.0 * 128 ** (k - 1)))
    out.append(Job(REL, PKG, "c20_tmfront.go", "VerifC20TmEvents", {"tmpl": 0, "k": 1, "conc": 1}, flags=FLT, tag="tm front end twin", twin=True))
    # event streams of real generated parsers (with recovery; plain and fixWhitespace): the nesting assertions live in the C19 harness
    saved = C19.RG
    sub = C19.jobs(type("T", (), {"tier": "thorough" if not q else "quick", "scratch": ctx.scratch, "problems": ctx.problems, "notes": ctx.notes})())
    out += [j for j in sub]
    return out


def describe(ctx):
    return {
        "explanation": "(1) ast.builder.addNode/build (shipped tm instance of go_ast_parse.go.tmpl) on a symbolic event stream: k events whose offsets are solver variables, "
                       "assumed well nested (disjoint nodes in any order) with containers after contents; the tree must contain exactly the k reported nodes plus the file node, every "
                       "child inside its parent, siblings in source order and disjoint, every node attached to its smallest container (the first later event containing it). "
                       "(2) the event streams of real generated parsers with error recovery (C19 corpus) on symbolic token arrays: nodes inside the input, pairwise "
                       "disjoint or nested, containers after contents, for valid and invalid inputs. (3) the shipped tm parser with its TokenStream, error recovery and the tree builder on four "
                       "grammar texts (with and without a syntax error around the hole) in which 1 (thorough 2) ASCII bytes are free: same event-stream assertions, and the built tree has "
                       "exactly the reported nodes, children inside parents, siblings in order. In (3) the byte values are enumerated by the executor through solver concretisation "
                       "(every run is concrete afterwards: the lexer's table lookups on a symbolic byte cost thousands of queries for the same 128 cases).",
        "bounds": {"builder": "k<=5 (6) non-empty nodes, k<=4 (5) with empty nodes, offsets in [0,8]", "event streams": "as C19: n<=5 quick / 7 thorough"},
        "outside": ["empty nodes sitting exactly on a boundary of another node (their parent is not determined by the statement)", "shipped json/test parsers with real lexers; the js parser beyond the seven one-byte template families of C19", "tm texts beyond the four templates"],
        "trusted": ["go/ssa", "symgo executor", "z3"],
        "assumptions": [],
    }
