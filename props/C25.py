from vlib.driver import Job

REL, PKG = "util/container", "container"
FLAGS = ["-nomerge"]   # comparison-driven merge loops: plain forking keeps every query a conjunction of atoms (5x faster here)


def shapes(tier):
    out = []
    for la in range(10):
        for lb in range(10):
            m, t = min(la, lb), la + lb
            if tier == "quick":
                ok = (m <= 1 and t <= 7) or t <= 4
            else:
                ok = (m <= 1 and t <= 9) or (m <= 2 and t <= 8) or t <= 7
            if ok:
                out.append((la, lb))
    return out


def jobs(ctx):
    out = []
    for entry in ("VerifC25Merge", "VerifC25Intersect"):
        for la, lb in shapes(ctx.tier):
            for rc in ((0, 1, 2, 3) if la + lb <= 4 else (0, 3)):
                out.append(Job(REL, PKG, "c25_algebra.go", entry, {"la": la, "lb": lb, "rc": rc}, flags=FLAGS,
                               tag="%s la=%d lb=%d rc=%d" % (entry, la, lb, rc), cost=1 + 3.0 ** min(la, lb) * (1 + max(la, lb))))
    for la, lb in shapes("quick"):
        if la + lb <= 5:
            out.append(Job(REL, PKG, "c25_algebra.go", "VerifC25Misc", {"la": la, "lb": lb}, flags=FLAGS, tag="misc la=%d lb=%d" % (la, lb), cost=2.0 ** (la + lb)))
    for entry in ("VerifC25Merge", "VerifC25Intersect", "VerifC25Misc"):
        out.append(Job(REL, PKG, "c25_algebra.go", entry, {"la": 1, "lb": 1, "rc": 3}, flags=FLAGS, tag=entry + " twin", twin=True))
    return out


def describe(ctx):
    return {
        "explanation": "container.Merge/Intersect/Complement/Equals/BitSet/Empty executed symbolically on two sorted sets with symbolic "
                       "elements and Inverse flags; membership of a symbolic probe in the result is compared with the boolean combination of "
                       "memberships; results must be strictly sorted, inside the universe, operands unchanged.",
        "bounds": {"set_sizes": "quick: min<=1 & sum<=7, or sum<=4; thorough: min<=1 & sum<=9, min<=2 & sum<=8, or sum<=7", "universe": "[0,64)",
                   "reuse": "nil, len0, len1, len8 (not aliasing operands)"},
        "outside": ["larger sets", "reuse buffers aliasing an operand (exercised through set.Closure instead)"],
        "trusted": ["go/ssa", "symgo executor", "z3", "harness oracle verifMember/verifSorted"],
        "assumptions": ["int is 64-bit", "operands are strictly increasing (the documented representation)"],
    }
