from vlib.driver import Job

REL, PKG = "util/container", "container"
FLAGS = ["-nomerge"]   # comparison-driven merge loops: plain forking keeps every query a conjunction of atoms (5x faster here)


def shapes(tier):
    out = []
    for la in range(10):
        for lb in range(10):
            m, t = min(la, lb), la + lb
            if tier == "quick":
                ok = (m <= 1 and t <= 7) or t <= 4
            else:
                ok = (m <= 1 and t <= 9) or (m <= 2 and t <= 8) or t <= 7
            if ok:
                out.append((la, lb))
    return out


def jobs(ctx):
    out = []
    for entry in ("VerifC25Merge", "VerifC25Intersect"):
        for la, lb in shapes(ctx.tier):
            for rc in ((0, 1, 2, 3) if la + lb <= 4 else (0, 3)):
                out.append(Job(REL, PKG, "c25_algebra.go", entry, {"la": la, "lb": lb, "rc": rc}, flags=FLAGS,
                               tag="%s la=%d lb=%d rc=%d" % (entry, la, lb, rc), cost=1 + 3.0 ** min(la, lb) * (1 + max(la, lb))))
    for la, lb in shapes("quick"):
        if la + lb <= 5:
            out.append(Job(REL, PKG, "c25_algebra.go", "VerifC25Misc", {"la": la, "lb": lb}, flags=FLAGS, tag="misc la=%d lb=%d" % (la, lb), cost=2.0 ** (la + lb)))
    for entry in ("VerifC25Merge", "VerifC25Intersect", "VerifC25Misc"):
        out.append(Job(REL, PKG, "c25_algebra.go", entry, {"la": 1, "lb": 1, "rc": 3}, flags=FLAGS, tag=entry + " twin", twin=True))
    out += closure_jobs(ctx)
    return out


def closure_jobs(ctx):
    """set.Closure on symbolic equation systems: node kinds are a driver parameter (base-3 digits, node 0 first: 0 union with a symbolic
    base set, 1 intersection of earlier nodes, 2 complement of an earlier node), edge targets are free choices, set elements symbolic."""
    out = []
    q = ctx.tier == "quick"
    R, P, HC = "util/set", "set", "c25_closure.go"

    def kinds_of(k):
        return [c for c in range(3 ** k) if c % 3 == 0]       # node 0 has no earlier node: it is a union node

    def add(k, kinds, buf, ln, ideg, udeg, cost):
        out.append(Job(R, P, HC, "VerifC25Closure", {"k": k, "buf": buf, "kinds": kinds, "len": ln, "ideg": ideg, "udeg": udeg},
                       tag="closure k=%d kinds=%d buf=%d len=%d ideg=%d udeg=%d" % (k, kinds, buf, ln, ideg, udeg), cost=cost))
    for k in (1, 2):
        for kinds in kinds_of(k):
            for buf in (0, 4):
                add(k, kinds, buf, 2, 2, 2, 5)
    for kinds in kinds_of(3):
        nu = sum(1 for i in range(3) if (kinds // 3 ** i) % 3 == 0)
        add(3, kinds, 4, 1 if (q and nu == 3) else 2, 2, 1, 40.0 * 4 ** nu)
        if not q:
            add(3, kinds, 0, 2, 2, 1, 40.0 * 4 ** nu)
    # four nodes: intersections and complements over two base sets (no Include edges), and cyclic unions with one derived node
    for kinds in kinds_of(4):
        ds = [(kinds // 3 ** i) % 3 for i in range(4)]
        nu = ds.count(0)
        if nu == 2 and ds[1] != 0 or (not q and nu <= 2):
            add(4, kinds, 4, 2, 2, 0, 300.0)
        if not q and nu == 3:
            add(4, kinds, 4, 1, 2, 1, 3000.0)
    out.append(Job(R, P, HC, "VerifC25Closure", {"k": 2, "buf": 0, "kinds": 3, "len": 1, "ideg": 1, "udeg": 1}, tag="closure twin", twin=True))
    return out


def describe(ctx):
    return {
        "explanation": "container.Merge/Intersect/Complement/Equals/BitSet/Empty executed symbolically on two sorted sets with symbolic "
                       "elements and Inverse flags; membership of a symbolic probe in the result is compared with the boolean combination of "
                       "memberships; results must be strictly sorted, inside the universe, operands unchanged. set.Closure (Add/Include/Intersect/Complement/"
                       "Compute incl. graph.Tarjan, closure, slowClosure, IntSliceMap interning) on equation systems of <=4 nodes with symbolic base sets: "
                       "error iff a complement lies on a dependency cycle, otherwise every node equals the stratified least solution for a symbolic probe.",
        "bounds": {"set_sizes": "quick: min<=1 & sum<=7, or sum<=4; thorough: min<=1 & sum<=9, min<=2 & sum<=8, or sum<=7", "universe": "[0,64)",
                   "reuse": "nil, len0, len1, len8 (not aliasing operands)",
                   "closure": "k<=3 nodes all kind vectors, k=4 selected kind vectors; base sets <=2 elements over [0,4); intersections of <=2 earlier nodes; <=1 (k<=2: 2) Include edges per union node, any target; NewClosure(0) and NewClosure(4)"},
        "outside": ["larger sets", "reuse buffers aliasing an operand (exercised through set.Closure instead)", "equation systems with more than 4 nodes or wider intersections"],
        "trusted": ["go/ssa", "symgo executor", "z3", "harness oracle verifMember/verifSorted"],
        "assumptions": ["int is 64-bit", "operands are strictly increasing (the documented representation)"],
    }
