import os

from vlib import corpus, grammars
from vlib.driver import Job, VERIF

# (name, terminals, rules with error alternatives marked by the pseudo terminal "error", arrows per rule)
RG = [
    ("r01", "as", [("Sx", "Lx", "File"), ("Lx", "Lx St", None), ("Lx", "St", None), ("St", "a s", "Stmt"), ("St", "error s", "BadStmt")]),
    ("r02", "aslr", [("Sx", "Lx", "File"), ("Lx", "Lx St", None), ("Lx", "St", None), ("St", "a s", "Stmt"), ("St", "l Lx r", "Block"), ("St", "l r", "Block"),
                     ("St", "error s", "BadStmt"), ("St", "l error r", "BadBlock")]),
    ("r03", "aslr", [("Sx", "Lx", "File"), ("Lx", "Lx St", None), ("Lx", "St", None), ("St", "a s", "Stmt"), ("St", "l .recoveryScope Lx r", "Block"),
                     ("St", "error s", "BadStmt")]),
    ("r05", "xlrmn", [("Sx", "Lx", "File"), ("Lx", "Lx St", None), ("Lx", "St", None), ("St", "x", "Atom"), ("St", "l Lx r", "Paren"), ("St", "m Lx n", "Bracket"),
                      ("St", "l error r", "BadParen"), ("St", "m error n", "BadBracket")]),
    ("r04", "aco", [("Sx", "o Ls c", "Call"), ("Sx", "o c", "Call"), ("Ls", "Ls m Ex", None), ("Ls", "Ex", None), ("Ex", "a", "Arg"), ("Ex", "error", "BadArg")]),
]


def variants(spec):
    name, terms, rules = spec[0], spec[1], spec[2]
    if name == "r04":
        terms = "acom"
    out = {}
    for which in ("A", "B"):
        rs, arrows = [], {}
        for lhs, rhs, arrow in rules:
            if which == "A" and "error" in rhs.split():
                continue
            if arrow:
                arrows[len(rs)] = arrow
            rs.append((lhs, rhs.split()))
        g = {"name": name, "terms": list(terms), "inputs": [("Sx", False)], "rules": rs, "arrows": arrows, "uses_error": which == "B"}
        out[which] = g
    return out


def jobs(ctx):
    q = ctx.tier == "quick"
    out = []
    items, specs = [], []
    optsets = [("plain", {})] if q else [("plain", {}), ("opt", {"optimizeTables": True}), ("fixws", {"fixWhitespace": True})]
    for spec in RG:
        v = variants(spec)
        for on, opts in optsets:
            pa, pb = "%s_%s_a" % (spec[0], on), "%s_%s_b" % (spec[0], on)
            ga, gb = dict(v["A"], pkg=pa), dict(v["B"], pkg=pb)
            # the oracle-free harness needs no productivity check of 'error'
            items.append({"name": pa, "tm": grammars.print_tm(ga, opts), "stub": True})
            items.append({"name": pb, "tm": grammars.print_tm(gb, opts), "stub": True})
            specs.append((spec, on, pa, pb, gb))
    root, metas = grammars.build_scratch(ctx, items)
    common = open(os.path.join(VERIF, "harness", "c19_recover.go.txt")).read()
    nmax = 5 if q else 7
    for spec, on, pa, pb, gb in specs:
        ma, mb = metas[pa], metas[pb]
        if not (ma["ok"] and mb["ok"]):
            ctx.problems.append("recovery corpus grammar %s/%s rejected: %s" % (spec[0], on, (ma["errors"] or mb["errors"])[:1]))
            continue
        pair = "rec_%s_%s" % (spec[0], on)
        d = os.path.join(root, pair)
        os.makedirs(d, exist_ok=True)
        open(os.path.join(d, "doc.go"), "w").write("// Package %s hosts a verification harness.\npackage %s\n" % (pair, pair))
        f1 = os.path.join(ctx.scratch, "h_%s.go" % pair)
        f2 = os.path.join(ctx.scratch, "h_%s_data.go" % pair)
        open(f1, "w").write(common.replace("package PKG", "package " + pair).replace("PKGA", pa).replace("PKGB", pb))
        symid = {name: i for i, name in enumerate(mb["syms"])}
        terms = [symid[t] for t in gb["terms"]]
        # the same terminals must have the same ids in both packages
        symida = {name: i for i, name in enumerate(ma["syms"])}
        if any(symida.get(t) != symid[t] for t in gb["terms"]):
            ctx.problems.append("token numbering differs between %s and %s" % (pa, pb))
            continue
        open(f2, "w").write("package %s\n\nimport (\n\tA \"vgen/%s\"\n\tB \"vgen/%s\"\n)\n\nvar verifTerms = []int32{%s}\n\n"
                            "func verifParseA(p *A.Parser, l *A.Lexer) error { return p.Parse(l) }\nfunc verifParseB(p *B.Parser, l *B.Lexer) error { return p.Parse(l) }\n"
                            % (pair, pa, pb, ", ".join(map(str, terms))))
        extra = {}
        for pk in (pa, pb):
            pf = os.path.join(ctx.scratch, "prelude_%s.go" % pk)
            open(pf, "w").write(open(os.path.join(VERIF, "harness", "prelude_dep.go.txt")).read().replace("package PKG", "package " + pk))
            open(pf + ".native", "w").write(open(os.path.join(VERIF, "harness", "prelude_dep_native.go.txt")).read().replace("package PKG", "package " + pk))
            extra[os.path.join(root, pk, "zz_verif_prelude_dep.go")] = pf
        T = len(terms)
        kw = dict(load_dir=root, import_path="vgen/" + pair, extra_overlay=extra, flags=["-looplimit", "100000", "-termbound", "-maxinstrs", "2000000"])
        for n in range(0, nmax + 1):
            if T ** n > (1100 if q else 20000):
                continue
            out.append(Job(pair, pair, [f1, f2], "VerifC19Recover", {"n": n}, tag="%s n=%d" % (pair, n), cost=float(T) ** n + 5, **kw))
        out.append(Job(pair, pair, [f1, f2], "VerifC19Recover", {"n": 2}, tag=pair + " twin", twin=True, **kw))
    # the shipped JavaScript parser (hand-written parse loop, token stream with semicolon insertion, real lexer) on short sources with a free byte
    FJ = ["-looplimit", "10000000", "-conccap", "300", "-maxinstrs", "400000000", "-termbound"]
    for t in range(7):
        out.append(Job("parsers/js", "js", "c19_js.go", "VerifC19Js", {"tmpl": t, "ascii": 1 if q else 0}, flags=FJ, tag="js parser tmpl=%d" % t, cost=30))
    out.append(Job("parsers/js", "js", "c19_js.go", "VerifC19Js", {"tmpl": 4, "ascii": 1}, flags=FJ, tag="js parser twin", twin=True))
    return out


def describe(ctx):
    return {
        "explanation": "(2) at the end of this text: the shipped JavaScript parser. (1) Grammars with 'error' rules (statement lists, nested blocks, a .recoveryScope marker, an error alternative inside a separated list) are generated by the "
                       "real tree twice: with their error rules (recovering parser) and without them. Both parse loops, incl. recoverFromError/skipBrokenCode/reduceAll, run on "
                       "the same symbolic token array (tokens are delivered concretely by the stub lexer, the solver enumerates them). Every path class: no panic, the run "
                       "finishes within the executor's loop caps (100000 visits per block: a cap hit makes the check inconclusive), handler offsets are non-decreasing and inside "
                       "the input, a failure is a SyntaxError that was reported; whenever the parser without error rules accepts, the recovering parser accepts too, reports "
                       "nothing and emits the same events. Also asserted on every run (C20): reported nodes lie inside the input, are pairwise disjoint or nested, containers follow contents. (2) The shipped JavaScript parser (generated tables, the hand-written parse loop and recovery of parsers/js/parser_impl.go, the token stream with semicolon insertion, the real lexer) runs on seven short sources (cascading errors, comments after declarators, inserted semicolons, valid code) in which one byte is free: no panic, termination within the step bound, handler offsets non-decreasing and inside the input, a failure is a reported SyntaxError, reported nodes inside the input, disjoint or nested, containers after contents. The byte values are enumerated by the executor through solver concretisation; each run is concrete afterwards.",
        "bounds": {"js": "7 sources x 1 free byte (ASCII quick, all values thorough)", "tokens": "n<=5 quick, n<=7 thorough over all terminals of the grammar", "grammars": "%d recovery grammars (thorough: plain, optimizeTables, fixWhitespace)" % len(RG)},
        "outside": ["grammars outside the corpus", "invalid_token handling by real lexers of generated corpus parsers", "js sources beyond the seven one-byte template families"],
        "trusted": ["go/ssa", "symgo executor", "z3", "stub lexer"],
        "assumptions": ["the error handler always asks to continue"],
    }
