from vlib.driver import Job

REL, PKG, H = "util/ident", "ident", "c28_ident.go"
FLAGS = ["-conccap", "300"]


def jobs(ctx):
    q = ctx.tier == "quick"
    out = []
    for style in range(4):
        for n in (1, 2, 3, 4) if not q else (1, 2, 3):
            out.append(Job(REL, PKG, H, "VerifC28Produce", {"n": n, "kind": 0, "style": style, "nounder": 1}, flags=FLAGS, tag="identifier n=%d style=%d" % (n, style), cost=6.0 ** n))
        for kind in (1, 2):
            for n in (1, 2) if q else (1, 2, 3):
                out.append(Job(REL, PKG, H, "VerifC28Produce", {"n": n, "kind": kind, "style": style, "nounder": 1}, flags=FLAGS, tag="quoted kind=%d n=%d style=%d" % (kind, n, style), cost=40.0 ** n))
        if style != 2:
            out.append(Job(REL, PKG, H, "VerifC28Produce", {"n": 3, "kind": 0, "style": style, "nounder": 2}, flags=FLAGS, tag="names without letters, style=%d" % style, cost=5,
                           only_kf="name-without-letters", kf_ids=["identifier-non-empty", "identifier-valid"]))
    out.append(Job(REL, PKG, H, "VerifC28Produce", {"n": 2, "kind": 0, "style": 0, "nounder": 1}, flags=FLAGS, tag="twin", twin=True))
    return out


def describe(ctx):
    return {
        "explanation": "ident.Produce and ident.IsValid (incl. strings.Builder, strings.ToUpper, unicode case tables, the charName map, fmt %02x) run on symbol names whose bytes are "
                       "solver variables: unquoted identifiers matching the tm lexer's ID pattern, 'quoted' and \"quoted\" names over printable ASCII, in all four casing styles. "
                       "The produced identifier must be non-empty, valid in all targets (IsValid) and in the requested casing style.",
        "bounds": {"identifiers": "1..3 bytes quick, 4 thorough, every byte admitted by [a-zA-Z_]([a-zA-Z_\\-0-9]*[a-zA-Z_0-9])?", "quoted names": "1..2 (3) printable ASCII bytes except the quote and backslash"},
        "outside": ["escape sequences inside quoted names", "non-ASCII names", "the collision rule (compiler/resolver.go): two symbols with the same identifier -- exercised only incidentally by the corpus compilations"],
        "trusted": ["go/ssa", "symgo executor (engine model of fmt.Sprintf)", "z3"],
        "assumptions": [],
    }
