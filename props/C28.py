from vlib.driver import Job

REL, PKG, H = "util/ident", "ident", "c28_ident.go"
FLAGS = ["-conccap", "300"]


def jobs(ctx):
    q = ctx.tier == "quick"
    out = []
    for style in range(4):
        for n in (1, 2, 3, 4) if not q else (1, 2, 3):
            out.append(Job(REL, PKG, H, "VerifC28Produce", {"n": n, "kind": 0, "style": style, "nounder": 1}, flags=FLAGS, tag="identifier n=%d style=%d" % (n, style), cost=6.0 ** n))
        for kind in (1, 2):
            for n in (1, 2) if q else (1, 2, 3):
                out.append(Job(REL, PKG, H, "VerifC28Produce", {"n": n, "kind": kind, "style": style, "nounder": 1}, flags=FLAGS, tag="quoted kind=%d n=%d style=%d" % (kind, n, style), cost=40.0 ** n))
        if style != 2:
            out.append(Job(REL, PKG, H, "VerifC28Produce", {"n": 3, "kind": 0, "style": style, "nounder": 2}, flags=FLAGS, tag="names without letters, style=%d" % style, cost=5,
                           only_kf="name-without-letters", kf_ids=["identifier-non-empty", "identifier-valid"]))
    out.append(Job(REL, PKG, H, "VerifC28Produce", {"n": 2, "kind": 0, "style": 0, "nounder": 1}, flags=FLAGS, tag="twin", twin=True))
    # the collision rule: two terminals (generated or explicit IDs), a terminal and a nonterminal, two nonterminals
    CR, CP, CH = "compiler", "compiler", "c28_collide.go"
    nm = 2 if q else 3
    for n1 in range(1, nm + 1):
        for n2 in range(n1, nm + 1):
            for e1, e2 in ((0, 0), (0, 2), (2, 0), (1, 1), (2, 2)) if (q or n2 == 3) else ((0, 0), (0, 1), (0, 2), (1, 0), (2, 0), (1, 1), (1, 2), (2, 1), (2, 2)):
                out.append(Job(CR, CP, CH, "VerifC28Tokens", {"n1": n1, "n2": n2, "e1": e1, "e2": e2}, flags=FLAGS, tag="two terminals n=%d,%d ids=%d,%d" % (n1, n2, e1, e2), cost=7.0 ** (n1 + n2) / 20))
    for n1 in (1, 2):
        for n2 in (1, 2, 3) if q else (1, 2, 3, 4):
            for both in (0, 1):
                out.append(Job(CR, CP, CH, "VerifC28Nonterm", {"n1": n1, "n2": n2, "both": both}, flags=FLAGS, tag="%s n=%d,%d" % ("two nonterminals" if both else "terminal and nonterminal", n1, n2),
                               cost=7.0 ** (n1 + n2) / 20))
    out.append(Job(CR, CP, CH, "VerifC28Tokens", {"n1": 1, "n2": 1, "e1": 0, "e2": 0}, flags=FLAGS, tag="collision twin", twin=True))
    return out


def describe(ctx):
    return {
        "explanation": "ident.Produce and ident.IsValid (incl. strings.Builder, strings.ToUpper, unicode case tables, the charName map, fmt %02x) run on symbol names whose bytes are "
                       "solver variables: unquoted identifiers matching the tm lexer's ID pattern, 'quoted' and \"quoted\" names over printable ASCII, in all four casing styles. "
                       "The produced identifier must be non-empty, valid in all targets (IsValid) and in the requested casing style. "
                       "Collision rule: compiler.resolver.addToken/addNonterms (with ident.Produce) on two distinct symbol names over an alphabet with letters of both cases, a digit, "
                       "'_' and '-' (and explicit token IDs over A, B, _): whenever no error is recorded the two symbols must have different identifiers.",
        "bounds": {"identifiers": "1..3 bytes quick, 4 thorough, every byte admitted by [a-zA-Z_]([a-zA-Z_\\-0-9]*[a-zA-Z_0-9])?", "quoted names": "1..2 (3) printable ASCII bytes except the quote and backslash",
                   "collisions": "two names of 1..2 (3) bytes over {a,b,A,B,_,-,1}, explicit IDs of 0..2 bytes over {A,B,_}; nonterminal names up to 3 (4) bytes"},
        "outside": ["escape sequences inside quoted names", "non-ASCII names", "collisions among more than two symbols or over a larger alphabet", "the other places that register symbols (syntax loader: collectNonterms, template parameters)"],
        "trusted": ["go/ssa", "symgo executor (engine model of fmt.Sprintf)", "z3"],
        "assumptions": [],
    }
