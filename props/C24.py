from vlib.driver import Job

REL, PKG, H = "shiftdfa", "shiftdfa", "c24_shift.go"
NSETS = 20
BIG = {0, 3, 13, 17, 18}       # 9-10 DFA states: 64-bit variable shifts over a 256-entry table make these queries slow


def jobs(ctx):
    out = []
    q = ctx.tier == "quick"
    for s in range(NSETS):
        out.append(Job(REL, PKG, H, "VerifC24Step", {"set": s}, tag="step set=%d" % s, cost=2))
        nmax = (3 if s in BIG else 4) if q else (5 if s in BIG else 6)
        for n in range(0, nmax + 1):
            out.append(Job(REL, PKG, H, "VerifC24Scan", {"set": s, "n": n}, tag="scan set=%d n=%d" % (s, n),
                           cost=(6.0 if s in BIG else 2.5) ** n, deadline=None if q else 3000))
    out.append(Job(REL, PKG, H, "VerifC24Scan", {"set": 2, "n": 2}, tag="scan twin", twin=True))
    out.append(Job(REL, PKG, H, "VerifC24Step", {"set": 3}, tag="step twin", twin=True))
    return out


def describe(ctx):
    return {
        "explanation": "For each rule set of a 20-member byte-mode corpus (the four sets of shiftdfa_test.go, sets with classes over 0x80-0xff, multi-byte "
                       "literals, bounded repetition, alternation, case-insensitive groups; some are rejected by the packer by design) the real lex.ParseRegexp, "
                       "lex.Compile and shiftdfa.Pack run concretely inside the executor; then (a) Scanner.Scan and Tables.Scan are executed on the same "
                       "symbolic byte string and must return the same size and token, (b) one step of the packed table is compared with the Dfa/SymbolMap "
                       "for a symbolic byte and every DFA state, and onEoi with the end-of-input column. (b) plus the loop arithmetic exercised in (a) "
                       "gives agreement for inputs of any length by induction on the input.",
        "bounds": {"input length": "quick n<=4 (n<=3 for the 9-10 state automata); thorough n<=6 (5)", "bytes": "all 256 values per position",
                   "rule sets": "20 corpus members (listed in harness/c24_shift.go)"},
        "outside": ["rule sets outside the corpus", "bounded runs longer than n (covered only through the one-step relation)"],
        "trusted": ["go/ssa", "symgo executor", "z3", "the induction argument connecting the one-step relation to Scan's loop"],
        "assumptions": ["Tables.Scan is the reference the statement names; its own correctness is C09"],
    }
