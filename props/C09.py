from vlib.driver import Job

REL, PKG, H = "lex", "lex", "c09_scan.go"
NSETS = 27
WANTERR = {21, 22}
SCS = {14: (0, 1)}
NONASCII = {9, 10, 15, 16}      # sets whose interesting inputs are non-ASCII: free bytes
HEAVY = {2, 5, 7, 12, 13, 17, 20, 24}


def jobs(ctx):
    out = []
    q = ctx.tier == "quick"
    for s in range(NSETS):
        if s in WANTERR:
            out.append(Job(REL, PKG, H, "VerifC09Scan", {"set": s, "sc": 0, "n": 0, "ascii": 1, "wanterr": 1}, tag="scan set=%d rejects" % s))
            continue
        for sc in SCS.get(s, (0,)):
            amax = (3 if s in HEAVY else 4) if q else (5 if s in HEAVY else 6)
            fmax = (3 if s in NONASCII else 2) if q else (4 if s in NONASCII else 3)
            for n in range(0, amax + 1):
                out.append(Job(REL, PKG, H, "VerifC09Scan", {"set": s, "sc": sc, "n": n, "ascii": 1, "wanterr": 0},
                               tag="scan set=%d sc=%d n=%d ascii" % (s, sc, n), cost=(5.0 if s in HEAVY else 3.0) ** n, deadline=None if q else 3000))
            for n in range(1, fmax + 1):
                out.append(Job(REL, PKG, H, "VerifC09Scan", {"set": s, "sc": sc, "n": n, "ascii": 0, "wanterr": 0},
                               tag="scan set=%d sc=%d n=%d bytes" % (s, sc, n), cost=(6.0 if s in HEAVY else 4.0) ** n, deadline=None if q else 3000))
    out.append(Job(REL, PKG, H, "VerifC09Scan", {"set": 3, "sc": 0, "n": 2, "ascii": 1, "wanterr": 0}, tag="scan twin", twin=True))
    return out


def describe(ctx):
    return {
        "explanation": "For each of 27 rule sets (the sets of lex_test.go plus bounded repetition, named patterns, {eoi}, case-insensitive, byte mode with "
                       "classes over 0x80-0xff, two start conditions, non-ASCII classes, identical rules and non-backtracking rejection) the real ParseRegexp and "
                       "lex.Compile run concretely inside the executor; Tables.Scan (incl. utf8.DecodeRuneInString and sort.Search) is then executed on a symbolic "
                       "text and compared with a denotational matcher over the parsed regex ASTs: largest non-empty prefix matched by an active rule, highest "
                       "precedence rule, otherwise action 0 with the longest viable prefix.",
        "bounds": {"text": "quick: n<=4 ASCII-constrained bytes (3 for the larger sets) and n<=2 (3 for non-ASCII sets) unconstrained bytes; thorough: 6/5 and 3/4",
                   "rule sets": "27 corpus members in harness/c09_scan.go; every start condition of each"},
        "outside": ["rule sets outside the corpus (lex.Compile is exercised only through them)", "longer texts", "regex ASTs are trusted as parsed by lex.ParseRegexp (checked separately in C10)"],
        "trusted": ["go/ssa", "symgo executor", "z3", "harness reference matcher verifMatch/verifPrefix", "lex.ParseRegexp output"],
        "assumptions": ["every sub-expression of a corpus regex denotes a non-empty language (used by the viable-prefix oracle)"],
    }
