#!/bin/sh
# Builds the framework offline from files on disk only.
set -e
cd "$(dirname "$0")"
export GOFLAGS=-mod=mod GOPROXY=off GOSUMDB=off GOTOOLCHAIN=local PATH=/opt/veriftools/go1.26.8/bin:$PATH CGO_ENABLED=0
mkdir -p bin evidence
(cd engine && go build -o ../bin/symgo ./cmd/symgo)
echo "setup ok"
