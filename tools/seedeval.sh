#!/bin/bash
# usage: tools/seedeval.sh <property id> <patch file> [tier]   -- applies the patch to /repo, runs the check, undoes the patch
ID=$1; PATCH=$2; TIER=${3:-quick}
cd /repo || exit 9
if [ -n "$(git status --porcelain)" ]; then echo "repo not clean"; exit 9; fi
git apply "$PATCH" || { echo "patch does not apply"; exit 9; }
cd /verif
OUT=$(./check $ID $TIER 2>&1); RC=$?
git -C /repo checkout -- . ; git -C /repo clean -fdq
echo "$OUT" | grep -E "^VIOLATION|^KNOWN|^INCONCLUSIVE| (quick|thorough): " | cut -c1-260 | head -8
echo "rc=$RC"
git -C /verif checkout -- evidence 2>/dev/null
