#!/bin/bash
# usage: tools/dbgrun.sh <rel> <pkgname> "<harness files>" <Entry> <params> [symgo flags]   (debug helper)
export GOFLAGS=-mod=mod GOPROXY=off GOSUMDB=off GOTOOLCHAIN=local PATH=/opt/veriftools/go1.26.8/bin:$PATH
REL=$1; PKG=$2; HS=$3; ENTRY=$4; PARAMS=$5; shift 5
S=$(mktemp -d /var/tmp/vs.XXXX)
BASE=${LOADDIR:-/repo}
sed "s/PKG/$PKG/" /verif/harness/prelude.go.txt > $S/prelude.go
{ echo -n '{"Replace": {"'$BASE/$REL'/zz_verif_prelude.go": "'$S'/prelude.go"'; i=0; for h in $HS; do echo -n ', "'$BASE/$REL'/zz_verif_h'$i'.go": "/verif/harness/'$h'"'; i=$((i+1)); done; echo '}}'; } > $S/ov.json
IMP=${IMPORT:-github.com/inspirer/textmapper/$REL}
timeout ${TMO:-300} /verif/bin/symgo -dir $BASE -overlay $S/ov.json -pkg ./$REL -entry $IMP.$ENTRY -params "$PARAMS" -out $S/out.json "$@" 2>&1 | tail -${TAIL:-1}
python3 - <<EOT
import json
try:
  r=json.load(open('$S/out.json'))['results'][0]
  print(r['outcomes']); print({k:(v['checked'],v['failed'],v['unknown']) for k,v in r['asserts'].items()})
  print(r['stats']); print(r['queries'])
  if r['init_bad']: print('init_bad', list(r['init_bad'].keys()))
  for k,v in list(r['caps_hit'].items())[:8]: print('CAP',v,k[:400])
  for v in (r["violations"] or [])[:${NV:-4}]: print("VIOL", v)
except Exception as ex: print('no output', ex)
EOT
rm -rf $S
