#!/usr/bin/env python3
"""usage: tools/mkmeta.py <seed dir name, e.g. C14-1> <caught: yes|no> <strengthened: yes|no> <detection text> -- writes seeded/<seed>/meta.json"""
import json, os, re, sys
V = os.path.dirname(os.path.dirname(os.path.abspath(__file__)))
seed, caught, strengthened, detection = sys.argv[1:5]
title_override = sys.argv[5] if len(sys.argv) > 5 else None
d = os.path.join(V, "seeded", seed)
notes = open(os.path.join(d, "notes.md")).read().splitlines()
title = title_override or next((l.lstrip("# ").strip() for l in notes if l.startswith("# ")), None) or next((l.lstrip("# ").strip() for l in notes if l.startswith("#")), seed)
needs, on = [], False
for l in notes:
    if re.match(r"^#+ ", l):
        on = bool(re.search(r"need|manifest|trigger", l, re.I))
        continue
    if on and l.strip():
        needs.append(l.strip())
if not needs:
    needs = [l.strip() for l in notes if re.search(r"\bneeds?\b|manifest", l, re.I)][:4]
confirm = [l.strip() for l in open(os.path.join(d, "confirm.log")) if l.strip()]
pid = seed.split("-")[0]
meta = {
    "property": pid, "seed": seed, "summary": title,
    "needs_to_manifest": "\n".join(needs)[:1200],
    "confirmed_in_scratch_worktree": confirm,
    "what_i_ran": ["tools/confirm_seed.sh (fresh git worktree of /repo: git apply, go build ./..., go test -vet=off -count=1 ./..., demonstration with and without the change)",
                   "tools/seedeval.sh %s seeded/%s/patch.diff  (git -C /repo apply; ./check %s quick; git -C /repo checkout -- .)" % (pid, seed, pid)],
    "detection": detection, "checks_strengthened": strengthened == "yes", "caught": caught == "yes",
    "source": "written by an independent sub-agent that saw only the property text and its own worktree",
}
json.dump(meta, open(os.path.join(d, "meta.json"), "w"), indent=1)
print(seed, "->", title[:80])
