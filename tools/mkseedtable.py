#!/usr/bin/env python3
"""Regenerates the seeded-change table of DESIGN.md (between the SEEDTABLE markers) from seeded/*/meta.json."""
import glob, json, os, re
V = os.path.dirname(os.path.dirname(os.path.abspath(__file__)))
rows = []
tot = caught = 0
for f in sorted(glob.glob(os.path.join(V, "seeded", "*", "meta.json"))):
    m = json.load(open(f))
    c = m.get("caught")
    if c is None:
        c = "NOT caught" not in m["detection"]
    tot += 1
    caught += 1 if c else 0
    summ = re.sub(r"^Seed\s*(C\d+/)?\d+\s*[:—-]+\s*", "", m["summary"].split("\n")[0]).replace("|", "/")
    summ = re.sub(r"^C\d+-\d+:\s*", "", summ)
    rows.append("| %s | %s | %s | %s |" % (m["seed"], summ[:150], "yes" if c else "**no**", m["detection"].replace("|", "/").replace("\n", " ")))
table = ["| seed | change | caught | by which check / what was strengthened |", "|------|--------|--------|------------------------------------------|"] + rows
table.append("")
table.append("%d seeded changes, %d caught, %d not caught (each of those lies in code that the property's evidence lists as outside the claim)." % (tot, caught, tot - caught))
p = os.path.join(V, "DESIGN.md")
s = open(p).read()
a, b = s.index("<!-- SEEDTABLE BEGIN -->"), s.index("<!-- SEEDTABLE END -->")
s = s[:a] + "<!-- SEEDTABLE BEGIN -->\n" + "\n".join(table) + "\n" + s[b:]
open(p, "w").write(s)
print(tot, caught)
