#!/bin/bash
# usage: tools/confirm_seed.sh <prop id> <seed index> <demo dir in repo> [demo file]   -- confirms a seeded change in a scratch worktree and stores it under /verif/seeded
export GOFLAGS=-mod=mod GOPROXY=off GOSUMDB=off GOTOOLCHAIN=local PATH=/opt/veriftools/go1.26.8/bin:$PATH
ID=$1; I=$2; DDIR=$3; DEMO=${4:-demo_test.go.txt}
SRC=/tmp/seed_$ID/seeds/$I
WT=/tmp/confirm_${ID}_$I
OUT=/verif/seeded/${ID}-$I
rm -rf $WT; git -C /repo worktree prune; git -C /repo worktree add -q --detach $WT HEAD || exit 9
cd $WT
res() { echo "$1" >> $WT/.confirm.log; }
git apply $SRC/patch.diff && res "patch applies: yes" || { res "patch applies: NO"; }
go build ./... > /dev/null 2>&1 && res "builds with change: yes" || res "builds with change: NO"
go test -vet=off -count=1 ./... > $WT/.suite.log 2>&1 && res "existing suite passes with change: yes" || res "existing suite passes with change: NO"
cp $SRC/$DEMO $DDIR/zz_seed_demo_test.go
go test -vet=off -count=1 ./$DDIR > $WT/.demo_with.log 2>&1 && res "demonstration with change: PASSES (unexpected)" || res "demonstration with change: fails (expected)"
git apply -R $SRC/patch.diff
go test -vet=off -count=1 ./$DDIR > $WT/.demo_without.log 2>&1 && res "demonstration without change: passes (expected)" || res "demonstration without change: FAILS (unexpected)"
mkdir -p $OUT
cp $SRC/patch.diff $OUT/patch.diff
cp $SRC/$DEMO $OUT/$DEMO
cp $SRC/notes.md $OUT/notes.md
cp $WT/.confirm.log $OUT/confirm.log
cat $WT/.confirm.log
cd /; git -C /repo worktree remove --force $WT
