#!/usr/bin/env python3
"""Regenerates MANIFEST.json from tools/claims.json (the single source for what is claimed)."""
import json, os
V = os.path.dirname(os.path.dirname(os.path.abspath(__file__)))
claims = json.load(open(os.path.join(V, "tools", "claims.json")))
props = [json.loads(l) for l in open(os.path.join(V, "properties.jsonl"))]
checks, na = [], []
for p in props:
    pid = p["id"]
    c = claims["claimed"].get(pid)
    if c:
        checks.append({
            "property_id": pid,
            "quick_cmd": "./check %s quick" % pid,
            "thorough_cmd": "./check %s thorough" % pid,
            "evidence_file": "evidence/%s.json" % pid,
            "replay_cmd_template": "./check %s --replay {path}" % pid,
            "engine": "symgo",
            "level_claimed": {"category": "other", "text": c["text"], "design_ref": c.get("design_ref", "DESIGN.md §6 " + pid)},
            "level_note": c["note"],
            "technique": c.get("technique", "bounded symbolic execution of the real Go code (go/ssa -> SMT-LIB2 bit-vectors, z3), counterexamples replayed natively"),
        })
    else:
        na.append({"property_id": pid, "reason": claims["not_applicable"].get(pid, "no solver-based check built yet for this property (see DESIGN.md)")})
m = {
    "version": 1,
    "setup_cmd": "./setup.sh",
    "hooks": {"guard": "verif", "enable": "no hooks: harnesses are injected with go/packages overlays and `go test -overlay`; nothing in /repo is built with a tag",
              "baseline_off_cmd": "cd /repo && PATH=/opt/veriftools/go1.26.8/bin:$PATH GOTOOLCHAIN=local GOFLAGS=-mod=mod GOPROXY=off go test -vet=off -count=1 ./...",
              "source_commits": claims.get("hook_commits", []), "add_only": True},
    "engines": [{"name": "symgo", "path": "engine/", "serves_properties": sorted(claims["claimed"].keys()),
                 "kind_free_text": "forking symbolic interpreter over go/ssa (x/tools v0.50.0) with state merging; terms are SMT-LIB2 bit-vectors decided by z3 (incremental), sat models replayed with go test -overlay"}],
    "checks": checks,
    "not_applicable": na,
    "notes": claims.get("notes", ""),
}
json.dump(m, open(os.path.join(V, "MANIFEST.json"), "w"), indent=1)
try:
    import jsonschema
    jsonschema.validate(m, json.load(open("/root/.vp/MANIFEST.schema.json")))
    print("MANIFEST.json valid: %d checks, %d not applicable" % (len(checks), len(na)))
except ImportError:
    print("written (jsonschema not available)")
