#!/bin/bash
# usage: tools/run_all.sh quick|thorough [ids...]   -- runs checks sequentially, prints one summary line each
TIER=$1; shift
IDS=${@:-$(python3 -c "import json;print(' '.join(c['property_id'] for c in json.load(open('MANIFEST.json'))['checks']))")}
./setup.sh > /dev/null
for id in $IDS; do
  t0=$(date +%s)
  out=$(./check $id $TIER 2>&1); rc=$?
  t1=$(date +%s)
  echo "== $id $TIER rc=$rc wall=$((t1-t0))s"
  echo "$out" | grep -E "^VIOLATION|^INCONCLUSIVE| (quick|thorough): " | cut -c1-300 | head -12
done
