#!/usr/bin/env python3
"""usage: tools/claim.py <id> <text> <note> [technique]  -- adds/updates a claim and regenerates MANIFEST.json"""
import json, os, subprocess, sys
V = os.path.dirname(os.path.dirname(os.path.abspath(__file__)))
p = os.path.join(V, "tools", "claims.json")
c = json.load(open(p))
pid, text, note = sys.argv[1:4]
ent = {"text": text, "note": note}
if len(sys.argv) > 4:
    ent["technique"] = sys.argv[4]
c["claimed"][pid] = ent
c["not_applicable"].pop(pid, None)
json.dump(c, open(p, "w"), indent=1)
subprocess.check_call(["python3-vt", os.path.join(V, "tools", "mkmanifest.py")])
