"""Independent reference construction: canonical LR(1) item sets merged by core (= LALR(1)), with the documented
conflict resolution. Used only to prepare reference tables; the comparison with the real generated tables is done by
the solver through the bisimulation harness.

Symbols: terminals are token ids of the compiled grammar (0 = eoi), nonterminals are 1000+index.
"""

NT = 1000


def build(rules, nnt, inputs, terminals, prec=None, rule_prec=None):
    """rules: [(lhs_nt_index, [symbols])]; inputs: [(nt_index, noeoi)]; terminals: list of all terminal ids (incl. 0);
    prec: {terminal: (level, assoc)}; rule_prec: {rule index: terminal}.
    Returns dict(states=n, action[state][terminal] = ('s', target) | ('r', rule) | ('e',) , goto[state][nt] = target,
    start[i], final[i], sr, rr)."""
    prec = prec or {}
    rule_prec = rule_prec or {}
    # nullable / FIRST
    nullable = [False] * nnt
    first = [set() for _ in range(nnt)]
    changed = True
    while changed:
        changed = False
        for lhs, rhs in rules:
            allnull = True
            for s in rhs:
                if s < NT:
                    if s not in first[lhs]:
                        first[lhs].add(s)
                        changed = True
                    allnull = False
                    break
                add = first[s - NT] - first[lhs]
                if add:
                    first[lhs] |= add
                    changed = True
                if not nullable[s - NT]:
                    allnull = False
                    break
            if allnull and not nullable[lhs]:
                nullable[lhs] = True
                changed = True

    def first_of(seq, la):
        out = set()
        for s in seq:
            if s < NT:
                out.add(s)
                return out
            out |= first[s - NT]
            if not nullable[s - NT]:
                return out
        out.add(la)
        return out

    by_lhs = {}
    for ri, (lhs, rhs) in enumerate(rules):
        by_lhs.setdefault(lhs, []).append(ri)
    # augmented rules: index len(rules)+i : S'_i -> S_i
    aug = [(None, [NT + nt]) for nt, _ in inputs]
    allrules = list(rules) + aug
    ANY = -7   # pseudo lookahead "any terminal" for no-eoi inputs

    def closure(items):
        items = set(items)
        work = list(items)
        while work:
            r, d, la = work.pop()
            rhs = allrules[r][1]
            if d < len(rhs) and rhs[d] >= NT:
                b = rhs[d] - NT
                las = first_of(rhs[d + 1:], la)
                for r2 in by_lhs.get(b, []):
                    for l2 in las:
                        it = (r2, 0, l2)
                        if it not in items:
                            items.add(it)
                            work.append(it)
        return frozenset(items)

    def expand_la(la):
        return list(terminals) if la == ANY else [la]

    states, index = [], {}
    start = []
    for i, (nt, noeoi) in enumerate(inputs):
        st = closure([(len(rules) + i, 0, ANY if noeoi else 0)])
        if st not in index:
            index[st] = len(states)
            states.append(st)
        start.append(index[st])
    trans = {}
    k = 0
    while k < len(states):
        st = states[k]
        moves = {}
        for r, d, la in st:
            rhs = allrules[r][1]
            if d < len(rhs):
                moves.setdefault(rhs[d], set()).add((r, d + 1, la))
        for sym, kern in moves.items():
            t = closure(kern)
            if t not in index:
                index[t] = len(states)
                states.append(t)
            trans[(k, sym)] = index[t]
        k += 1
    # merge by core
    core_of = [frozenset((r, d) for r, d, _ in st) for st in states]
    cid = {}
    merged = []
    for i, c in enumerate(core_of):
        if c not in cid:
            cid[c] = len(cid)
            merged.append(set())
        merged[cid[c]] |= set(states[i])
    m = [cid[c] for c in core_of]
    n = len(merged)
    goto = [dict() for _ in range(n)]
    shift = [dict() for _ in range(n)]
    for (s, sym), t in trans.items():
        if sym >= NT:
            goto[m[s]][sym - NT] = m[t]
        else:
            shift[m[s]][sym] = m[t]
    sr = rr = 0
    action = [dict() for _ in range(n)]
    final = []
    for i, (nt, noeoi) in enumerate(inputs):
        s0 = m[start[i]]
        f = goto[s0][nt]
        if not noeoi:
            # the eoi shift from {S' -> S . , eoi}: model the after-eoi state as a fresh accepting state
            f = ("eoi", f)
        final.append(f)
    # fresh after-eoi states
    after = {}
    for i, f in enumerate(final):
        if isinstance(f, tuple):
            if f not in after:
                after[f] = n + len(after)
            final[i] = after[f]
    total = n + len(after)
    for s in range(n):
        reds = {}
        for r, d, la in merged[s]:
            if d == len(allrules[r][1]):
                if r >= len(rules):
                    continue        # S' -> S . : acceptance is the final-state test, not an action
                for l in expand_la(la):
                    reds.setdefault(l, set()).add(r)
        # S' -> S . eoi  : shift of eoi into the after-eoi state
        for r, d, la in merged[s]:
            if r >= len(rules) and d == 1 and la == 0:
                shift[s][0] = after[("eoi", s)] if ("eoi", s) in after else shift[s].get(0)
        # a state with one reduction and no terminal shifts reduces without consulting lookahead
        rset = set()
        for v in reds.values():
            rset |= v
        if len(rset) == 1 and not shift[s]:
            r = next(iter(rset))
            for t in terminals:
                action[s][t] = ("r", r)
            continue
        for t in terminals:
            cand_r = sorted(reds.get(t, ()))
            has_s = t in shift[s] and shift[s][t] is not None
            if not cand_r:
                action[s][t] = ("s", shift[s][t]) if has_s else ("e",)
                continue
            act = ("s", shift[s][t]) if has_s else None
            conflict_sr = conflict_rr = False
            for r in cand_r:
                if act is None:
                    act = ("r", r)
                    continue
                if act[0] == "s":
                    # shift/reduce: precedence
                    rp = rule_prec.get(r)
                    if rp is None:
                        for x in reversed(rules[r][1]):
                            if x < NT:
                                rp = x
                                break
                    if rp is None or t == 0 or rp not in prec or t not in prec:
                        conflict_sr = True
                        continue            # default: shift
                    (l1, _), (l2, a2) = prec[rp], prec[t]
                    if l1 > l2 or (l1 == l2 and a2 == "left"):
                        act = ("r", r)
                    elif l1 == l2 and a2 == "nonassoc":
                        act = ("e", "nonassoc")
                    # else shift stays
                elif act[0] == "r":
                    conflict_rr = True      # earlier rule stays
                elif act[0] == "e":
                    pass
            if conflict_sr:
                sr += 1
            elif conflict_rr:
                rr += 1
            action[s][t] = act
    for a in range(n, total):
        action.append({t: ("e",) for t in terminals})
        goto.append({})
    return {"states": total, "action": action, "goto": goto, "start": [m[s] for s in start], "final": final, "sr": sr, "rr": rr}


def go_package(pkg, ref, rules, nnt, num_tokens, terminals, nsyms, nt_sym_index):
    """Go package exposing the reference automaton through the same shim API as the generated parsers.
    nt_sym_index[k] = symbol index (token-space) of nonterminal k in the compiled grammar."""
    n = ref["states"]
    L = ["// Package %s: reference LALR(1) automaton (canonical LR(1) merged by core), printed by vlib/reflalr.py." % pkg, "package " + pkg, ""]
    kinds, args = [], []
    for s in range(n):
        krow, arow = [], []
        for t in range(num_tokens):
            a = ref["action"][s].get(t, ("e",))
            if a[0] == "r":
                krow.append(0); arow.append(a[1])
            elif a[0] == "s":
                krow.append(1); arow.append(a[1])
            else:
                krow.append(2); arow.append(1 if len(a) > 1 else 0)
        kinds.append(krow); args.append(arow)
    def lit(rows):
        return "{" + ", ".join("{" + ", ".join(map(str, r)) + "}" for r in rows) + "}"
    L.append("var refKind = [][]int8%s" % lit(kinds))
    L.append("var refArg = [][]int16%s" % lit(args))
    gt = []
    for s in range(n):
        row = [-1] * nnt
        for k, t in ref["goto"][s].items():
            row[k] = t
        gt.append(row)
    L.append("var refGoto = [][]int16%s" % lit(gt))
    sym2nt = {nt_sym_index[k]: k for k in range(nnt)}
    L.append("var refNtOfSym = map[int32]int{%s}" % ", ".join("%d: %d" % kv for kv in sorted(sym2nt.items())))
    L.append("func VerifNumStates() int { return %d }" % n)
    L.append("func VerifNumRules() int { return %d }" % len(rules))
    L.append("func VerifRuleLen(r int) int { return [...]int{%s}[r] }" % ", ".join(str(len(rhs)) for _, rhs in rules))
    L.append("func VerifRuleSym(r int) int { return [...]int{%s}[r] }" % ", ".join(str(nt_sym_index[lhs]) for lhs, _ in rules))
    L.append("func VerifRuleType(r int) int { return 0 }")
    L.append("func VerifRuleAction(r int) int { return 0 }")
    L.append("func VerifNumTokens() int { return %d }" % num_tokens)
    L.append("func VerifNumSymbols() int { return %d }" % nsyms)
    L.append("func VerifFinal(input int) int { return [...]int{%s}[input] }" % ", ".join(map(str, ref["final"])))
    L.append("func VerifStart(input int) int { return [...]int{%s}[input] }" % ", ".join(map(str, ref["start"])))
    L.append("func VerifNumInputs() int { return %d }" % len(ref["final"]))
    L.append("""func VerifStep(state int, sym int32) (kind, arg int) {
	k := int(refKind[state][sym])
	if k == 2 {
		return 2, 0
	}
	return k, int(refArg[state][sym])
}
func VerifExplicitError(state int, sym int32) bool { return refKind[state][sym] == 2 && refArg[state][sym] == 1 }
func VerifGoto(state int, sym int32) int {
	if int(sym) < VerifNumTokens() {
		if refKind[state][sym] == 1 {
			return int(refArg[state][sym])
		}
		return -1
	}
	k, ok := refNtOfSym[sym]
	if !ok {
		return -1
	}
	return int(refGoto[state][k])
}""")
    return "\n".join(L) + "\n"
