"""Templated corpus grammars (C14): notation, .tm printer hooks and a reference instantiation.

The reference instantiation is written from the notation's meaning, not from syntax/templates.go: a templated nonterminal
under a valuation of its parameters is the nonterminal obtained by keeping exactly the alternatives whose predicate is true
and by passing to every reference the values its arguments denote in that valuation. It produces an ordinary extended-notation
grammar (one nonterminal per reachable (template, valuation)) for the reference interpreter; the .tm text given to the real
compiler is printed from the templated tree.

Templated forms (besides the forms of vlib/extgram.py):
  ("n", name, [(param, spec) ...])   spec: "+" | "~" | ("lit", "true"|"false") | ("from", param) | "same"
  ("cond", pred, e)                  only as an alternative (top level or inside a nested choice)
  pred: ("p", X) | ("not", ("p", X)) | ("eq", X, v) | ("ne", X, v) | ("and", [..]) | ("or", [..])
Grammar: params = [(name, "flag"|"la", default|None)], tnts = [(name, [decl ...], alts)], decl = "X" (global) | ("Y", default|None) (inline)
"""
from vlib import extgram
from vlib.extgram import T, N, S, O, A, L, AR, EG


def NT(name, *args):
    out = []
    for a in args:
        if isinstance(a, tuple):
            out.append(a)
        elif a[0] in "+~":
            out.append((a[1:], a[0]))
        elif ":" in a:
            p, v = a.split(":")
            out.append((p, ("lit", v) if v in ("true", "false") else ("from", v)))
        else:
            out.append((a, "same"))
    return ("n", name, out)


def C(pred, e):
    return ("cond", parse_pred(pred), e)


def parse_pred(s):
    """'A && !B || C == false' with the precedence of the tm grammar (&& over ||, no parentheses)."""
    if not isinstance(s, str):
        return s
    ors = [x.strip() for x in s.split("||")]
    if len(ors) > 1:
        return ("or", [parse_pred(x) for x in ors])
    ands = [x.strip() for x in s.split("&&")]
    if len(ands) > 1:
        return ("and", [parse_pred(x) for x in ands])
    s = s.strip()
    if "==" in s:
        a, b = s.split("==")
        return ("eq", a.strip(), b.strip())
    if "!=" in s:
        a, b = s.split("!=")
        return ("ne", a.strip(), b.strip())
    if s.startswith("!"):
        return ("not", ("p", s[1:].strip()))
    return ("p", s)


def ppred(p):
    k = p[0]
    if k == "p":
        return p[1]
    if k == "not":
        return "!" + ppred(p[1])
    if k == "eq":
        return '%s == "%s"' % (p[1], p[2])
    if k == "ne":
        return '%s != "%s"' % (p[1], p[2])
    if k == "and":
        return " && ".join(ppred(x) for x in p[1])
    if k == "or":
        return " || ".join(ppred(x) for x in p[1])
    raise ValueError(k)


def pargs(args):
    out = []
    for p, spec in args:
        if spec in ("+", "~"):
            out.append(spec + p)
        elif spec == "same":
            out.append(p)
        else:
            out.append("%s: %s" % (p, spec[1]))
    return "<" + ", ".join(out) + ">"


def print_tm(g, opts=None):
    decls = []
    for name, kind, default in g["params"]:
        decls.append("%%%sflag %s%s;" % ("lookahead " if kind == "la" else "", name, (" = " + default) if default else ""))
    body = []
    for name, pdecl, alts in g["tnts"]:
        rows = []
        for expr, arrow in alts:
            txt = extgram.ptm(expr, True)
            if arrow:
                txt += " -> " + arrow
            rows.append(txt)
        ps = []
        for d in pdecl:
            if isinstance(d, str):
                ps.append(d)
            else:
                ps.append("flag %s%s" % (d[0], (" = " + d[1]) if d[1] else ""))
        body.append("%s%s :\n    %s\n;" % (name, ("<" + ", ".join(ps) + ">") if ps else "", "\n  | ".join(rows)))
    gg = dict(g)
    gg["body"] = "\n".join(body)
    gg["extra"] = "\n".join(decls)
    from vlib import grammars
    return grammars.print_tm(gg, opts)


# ---------------------------------------------------------------------------------------------
# reference instantiation

class Bad(Exception):
    pass


def leading_refs(e, out, lead=True):
    """References that stand at the first position of the expression (through optional parts, lists, choices, annotations)."""
    k = e[0]
    if k == "n":
        if lead:
            out.append(e)
    elif k in ("seq", "alt"):
        first = True
        for x in e[1]:
            if k == "alt":
                leading_refs(x, out, lead)
            else:
                if x[0] in ("marker", "la", "act", "empty"):
                    continue
                leading_refs(x, out, lead and first)
                first = False
    elif k in ("opt", "list"):
        leading_refs(e[1], out, lead)
    elif k in ("arrow", "alias", "cond"):
        leading_refs(e[2], out, lead)


def instantiate(g):
    pinfo = {name: (kind, default) for name, kind, default in g["params"]}
    la = [name for name, kind, _ in g["params"] if kind == "la"]
    order = [name for name, _, _ in g["params"]]
    tn = {}
    for name, pdecl, alts in g["tnts"]:
        declared = []
        for d in pdecl:
            if isinstance(d, str):
                declared.append((d, pinfo[d][1]))
            else:
                declared.append((d[0], d[1]))
                if d[0] not in order:
                    order.append(d[0])
        tn[name] = (declared, alts)

    # lookahead flags a nonterminal can receive: used directly, or accepted by a reference at its first position
    def uses(e, acc):
        k = e[0]
        if k == "cond":
            def walk(p):
                if p[0] in ("p", "eq", "ne"):
                    if p[1] in la:
                        acc.add(p[1])
                elif p[0] == "not":
                    walk(p[1])
                else:
                    for x in p[1]:
                        walk(x)
            walk(e[1])
            uses(e[2], acc)
        elif k == "n":
            for p, spec in (e[2] if len(e) > 2 else []):
                if spec == "same" and p in la:
                    acc.add(p)
                if isinstance(spec, tuple) and spec[0] == "from" and spec[1] in la:
                    acc.add(spec[1])
        elif k in ("seq", "alt"):
            for x in e[1]:
                uses(x, acc)
        elif k in ("opt", "list"):
            uses(e[1], acc)
        elif k in ("arrow", "alias"):
            uses(e[2], acc)

    accept = {}
    lead = {}
    for name, (_, alts) in tn.items():
        acc = set()
        refs = []
        for e, _ in alts:
            uses(e, acc)
            leading_refs(e, refs)
        accept[name] = acc
        lead[name] = refs
    changed = True
    while changed:
        changed = False
        for name in tn:
            for r in lead[name]:
                explicit = {p for p, _ in (r[2] if len(r) > 2 else [])}
                for f in accept[r[1]] - explicit:
                    if f not in accept[name]:
                        accept[name].add(f)
                        changed = True

    def ladef(f):
        return pinfo[f][1] == "true"

    def pname(name, env):
        return name + "".join("_" + p for p in order if env.get(p) is True)

    insts, queue, out_nts = {}, [], []

    def want(name, env):
        key = (name, tuple(sorted(env.items())))
        if key not in insts:
            insts[key] = pname(name, env)
            queue.append((name, env))
        return insts[key]

    def ev(pred, env, owner):
        k = pred[0]
        if k == "p":
            return val(pred[1], env, owner)
        if k == "not":
            return not ev(pred[1], env, owner)
        if k == "eq":
            return val(pred[1], env, owner) == (pred[2] == "true")
        if k == "ne":
            return val(pred[1], env, owner) != (pred[2] == "true")
        if k == "and":
            return all(ev(x, env, owner) for x in pred[1])
        if k == "or":
            return any(ev(x, env, owner) for x in pred[1])
        raise ValueError(k)

    def val(p, env, owner):
        if p in env:
            return env[p]
        if p in la:
            return ladef(p)
        raise Bad("parameter %s is not visible in %s" % (p, owner))

    def tr(e, env, owner, leadset):
        k = e[0]
        if k == "n":
            target = e[1]
            declared, _ = tn[target]
            args = dict(e[2]) if len(e) > 2 else {}
            nenv = {}
            for p, default in declared:
                if p in args:
                    nenv[p] = argval(p, args[p], env, owner)
                elif p in env and p not in la:
                    nenv[p] = env[p]
                elif default:
                    nenv[p] = default == "true"
                else:
                    raise Bad("no value for %s of %s in %s" % (p, target, owner))
            for f in sorted(accept[target]):
                if f in args:
                    nenv[f] = argval(f, args[f], env, owner)
                elif id(e) in leadset:
                    nenv[f] = env.get(f, ladef(f))
                else:
                    nenv[f] = ladef(f)
            return ("n", want(target, nenv))
        if k == "seq":
            return ("seq", [tr(x, env, owner, leadset) for x in e[1]])
        if k == "alt":
            subs = []
            for x in e[1]:
                if x[0] == "cond":
                    if not ev(x[1], env, owner):
                        continue
                    x = x[2]
                subs.append(tr(x, env, owner, leadset))
            return ("alt", subs)
        if k == "opt":
            return ("opt", tr(e[1], env, owner, leadset))
        if k == "list":
            return ("list", tr(e[1], env, owner, leadset), e[2], e[3])
        if k in ("arrow", "alias"):
            return (k, e[1], tr(e[2], env, owner, leadset))
        return e

    def argval(p, spec, env, owner):
        if spec == "+":
            return True
        if spec == "~":
            return False
        if spec == "same":
            return val(p, env, owner)
        if spec[0] == "lit":
            return spec[1] == "true"
        return val(spec[1], env, owner)

    for nt, _ in g["inputs"]:
        if tn[nt][0]:
            raise Bad("parametrised input")
        want(nt, {f: ladef(f) for f in accept[nt]})
    i = 0
    while i < len(queue):
        name, env = queue[i]
        i += 1
        leadset = {id(r) for r in lead[name]}
        alts = []
        for e, arrow in tn[name][1]:
            if e[0] == "cond":
                if not ev(e[1], env, name):
                    continue
                e = e[2]
            alts.append((tr(e, env, name, leadset), arrow))
        out_nts.append((pname(name, env), alts))
    return out_nts


def TG(name, terms, inputs, params, tnts, **kw):
    g = EG(name, terms, inputs, None, params=params, tnts=tnts, **kw)
    g["nts"] = instantiate(g)
    return g


def seq(*xs):
    return extgram.seq(*xs)


# ---------------------------------------------------------------------------------------------
# corpus

TMPL = [
    # global flag with explicit +/~ arguments; predicate and negated predicate
    TG("t01", "abc", ["Sx"], [("Fa", "flag", None)], [
        ("Sx", [], [(S(NT("Ax", "+Fa"), T("c"), NT("Ax", "~Fa")), "Root")]),
        ("Ax", ["Fa"], [(C("Fa", S(T("a"), T("a"))), "Yes"), (C("!Fa", S(T("b"))), "No"), (S(T("a"), T("b")), "Both")]),
    ]),
    # default values (true and false) used when the reference gives no argument; propagation by name through an intermediate nonterminal
    TG("t02", "abcd", ["S1", "S2", "S3", "S4"], [("Fa", "flag", "true"), ("Fb", "flag", "false")], [
        ("S1", [], [(S(N("Mx")), "R1")]),
        ("S2", [], [(S(NT("Mx", "~Fa", "+Fb")), "R2")]),
        ("S3", [], [(S(NT("Mx", "+Fb")), "R3")]),
        ("S4", [], [(S(NT("Mx", "~Fa"), T("d"), N("Mx")), "R4")]),
        ("Mx", ["Fa", "Fb"], [(S(T("c"), N("Lx")), "Mid")]),
        ("Lx", ["Fa", "Fb"], [(C("Fa && Fb", T("a")), "AB"), (C("Fa && !Fb", T("b")), "AnB"), (C("!Fa && Fb", S(T("a"), T("b"))), "nAB"), (C("!Fa && !Fb", S(T("b"), T("a"))), "nAnB")]),
    ]),
    # || and precedence of && over ||, == and != with both literals; one input per valuation keeps the sentences short
    TG("t03", "abcd", ["S1", "S2", "S3", "S4", "S5"], [("Fa", "flag", None), ("Fb", "flag", None), ("Fc", "flag", None)], [
        ("S1", [], [(S(NT("Px", "+Fa", "~Fb", "~Fc")), "R1")]),
        ("S2", [], [(S(NT("Px", "~Fa", "+Fb", "~Fc")), "R2")]),
        ("S3", [], [(S(NT("Px", "~Fa", "+Fb", "+Fc")), "R3")]),
        ("S4", [], [(S(NT("Px", "~Fa", "~Fb", "+Fc")), "R4")]),
        ("S5", [], [(S(NT("Px", "~Fa", "~Fb", "~Fc"), T("d"), NT("Px", "+Fa", "+Fb", "+Fc")), "R5")]),
        ("Px", ["Fa", "Fb", "Fc"], [(C("Fa || Fb && Fc", T("a")), "P1"), (C("Fa == false && Fb != true", T("b")), "P2"), (C("Fb == true || Fc != false", S(T("c"), T("c"))), "P3"),
                                    (C("!Fa || !Fb || !Fc", S(T("d"), T("d"))), "P5"), (S(T("c")), "P4")]),
    ]),
    # inline flags with defaults; values copied from another parameter (P: Q) and literal values (P: true)
    TG("t04", "abc", ["S1", "S2", "S3", "S4"], [("Fg", "flag", None)], [
        ("S1", [], [(S(NT("Ix")), "R1")]),
        ("S2", [], [(S(NT("Ix", "+Fy")), "R2")]),
        ("S3", [], [(S(NT("Wx", "+Fg")), "R3")]),
        ("S4", [], [(S(NT("Wx", "~Fg"), T("c"), N("Ix")), "R4")]),
        ("Ix", [("Fy", "false")], [(C("Fy", T("a")), "IY"), (C("!Fy", T("b")), "IN")]),
        ("Wx", ["Fg"], [(S(NT("Ix", "Fy:Fg"), NT("Ix", "Fy:true")), "W")]),
    ]),
    # the same inline flag name in two nonterminals: values travel by name; recursion keeps the valuation
    TG("t05", "abc", ["Sx"], [], [
        ("Sx", [], [(S(NT("Rx", "+Fz"), T("c"), NT("Rx", "~Fz")), "Root")]),
        ("Rx", [("Fz", None)], [(S(T("a"), N("Rx")), "Rec"), (S(N("Ex")), None)]),
        ("Ex", [("Fz", None)], [(C("Fz", S(T("b"), T("b"))), "E2"), (C("!Fz", T("b")), "E1")]),
    ]),
    # predicates on alternatives of a nested choice and inside a list; conditional alternative removed from a two-way choice
    TG("t06", "abcd", ["S1", "S2"], [("Fa", "flag", None)], [
        ("S1", [], [(S(NT("Nx", "+Fa"), T("d")), "R1")]),
        ("S2", [], [(S(NT("Nx", "~Fa"), T("d")), "R2")]),
        ("Nx", ["Fa"], [(S(T("a"), L(A(C("Fa", AR("Lb", T("b"))), AR("Lc", T("c")), C("!Fa", AR("Laa", S(T("a"), T("a"))))), True)), "Nn")]),
    ]),
    # lookahead flag: reaches the first symbol only, through a chain of nonterminals; the second position gets 'false'
    TG("t07", "abc", ["Sx"], [("La", "la", "false")], [
        ("Sx", [], [(S(NT("Ex", "+La"), T("c"), N("Ex")), "Root")]),
        ("Ex", [], [(S(N("Px"), N("Px")), "Pair")]),
        ("Px", [], [(S(N("Qx")), None)]),
        ("Qx", [], [(C("!La", T("a")), "Qa"), (S(T("b")), "Qb")]),
    ]),
    # lookahead flag stopped by an explicit argument on the way; left recursion carries it
    TG("t08", "abcp", ["Sx"], [("La", "la", "false")], [
        ("Sx", [], [(S(NT("Ex", "+La"), T("c"), N("Ex")), "Root")]),
        ("Ex", [], [(S(N("Ex"), T("p"), N("Ux")), "Add"), (S(N("Ux")), None)]),
        ("Ux", [], [(S(N("Qx")), "U1"), (S(T("b"), NT("Qx", "~La")), "U2")]),
        ("Qx", [], [(C("!La", T("a")), "Qa"), (S(T("b"), T("b")), "Qb")]),
    ], cap=1100),
    # two lookahead flags and an ordinary flag together
    TG("t09", "abcd", ["S1", "S2", "S3"], [("Fa", "flag", "false"), ("La", "la", "false"), ("Lb", "la", "false")], [
        ("S1", [], [(S(NT("Ex", "+La", "+Fa")), "R1")]),
        ("S2", [], [(S(NT("Ex", "+Lb")), "R2")]),
        ("S3", [], [(S(NT("Ex", "+La", "+Lb"), T("d"), N("Ex")), "R3")]),
        ("Ex", ["Fa"], [(S(N("Qx"), N("Qx")), "Pair")]),
        ("Qx", ["Fa"], [(C("!La", T("a")), "Qa"), (C("!Lb", T("b")), "Qb"), (C("Fa", S(T("c"), T("a"))), "Qc"), (S(T("c"), T("c")), "Qd")]),
    ], cap=1100),
]

TMPL += [
    # inline flags of the same name, both with defaults: the value travels by name, the default is used only from contexts without such a flag
    TG("t12", "abc", ["S1", "S2", "S3"], [], [
        ("S1", [], [(S(NT("Ox", "+Fx")), "R1")]),
        ("S2", [], [(S(N("Ox")), "R2")]),
        ("S3", [], [(S(N("Ix"), T("a"), NT("Ix", "+Fx")), "R3")]),
        ("Ox", [("Fx", "false")], [(S(T("a"), N("Ix")), "Outer")]),
        ("Ix", [("Fx", "false")], [(C("Fx", T("b")), "IY"), (C("!Fx", S(T("c"), T("c"))), "IN")]),
    ]),
    # two lookahead flags pinned by different leading references of one nonterminal; the flag arrives through a parent with another alternative
    TG("t13", "abcde", ["S1", "S2"], [("La", "la", "false"), ("Lb", "la", "false")], [
        ("S1", [], [(S(NT("Xx", "+Lb")), "R1")]),
        ("S2", [], [(S(N("Xx"), T("c"), NT("Xx", "+Lb")), "R2")]),
        ("Xx", [], [(S(N("Tx")), "XT"), (S(N("Wx")), "XW")]),
        ("Tx", [], [(S(NT("Ux", "~Lb"), T("d")), "T1"), (S(NT("Ux", "~La"), T("e")), "T2")]),
        ("Ux", [], [(C("!La", T("a")), "Ua"), (C("!Lb", T("b")), "Ub"), (S(T("d")), "Ud")]),
        ("Wx", [], [(C("!Lb", S(T("c"), T("c"))), "W1"), (S(T("c"), T("d")), "W2")]),
    ], cap=3200),
]

# a nonterminal all of whose alternatives are switched off derives nothing
TMPL_EMPTY = [
    TG("t10", "abc", ["Sx"], [("Fa", "flag", None)], [
        ("Sx", [], [(S(T("a"), NT("Ax", "+Fa")), "R1"), (S(T("b"), NT("Ax", "~Fa"), T("c")), "R2")]),
        ("Ax", ["Fa"], [(C("Fa", T("a")), "Yes")]),
    ], known="all-alternatives-disabled-derives-empty-string"),
]

# a lookahead flag declared with the default 'true'
TMPL_LADEF = [
    TG("t11", "abc", ["Sx"], [("La", "la", "true")], [
        ("Sx", [], [(S(NT("Qx", "~La"), T("c"), N("Qx")), "Root")]),
        ("Qx", [], [(C("!La", T("a")), "Qa"), (S(T("b")), "Qb")]),
    ]),
]
