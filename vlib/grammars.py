"""Abstract corpus grammars, the .tm printer and the scratch-module builder (tmprep front end).

A grammar is a dict:
  name     unique id (also the package name)
  terms    terminal names (single lower-case letters; eoi / invalid_token / error are implicit)
  inputs   [(nonterminal, noeoi)]
  rules    [(lhs, [rhs symbols]) ...]              plain context-free rules (the oracle's view)
  body     optional: the parser section text, when it uses notation beyond plain rules (then `rules` must be its meaning)
  opts     {"optimizeTables": True, ...}          grammar options
  prec     [("left"|"right"|"nonassoc", [terms])]
  extra    extra text for the parser section header (e.g. %expect 1;)
"""
import json
import os
import subprocess

from vlib.driver import VERIF, goenv


def print_tm(g, opts=None, pkgroot="vgen"):
    name = g["name"] if not opts else g["name"]
    o = dict(g.get("opts", {}))
    o.update(opts or {})
    lines = ["language %s(go);" % g["name"], "", 'lang = "%s"' % g["name"], 'package = "%s/%s"' % (pkgroot, g["pkg"] if "pkg" in g else g["name"])]
    o.setdefault("eventBased", True)
    for k, v in o.items():
        if isinstance(v, bool):
            v = "true" if v else "false"
        elif isinstance(v, str):
            v = '"%s"' % v
        lines.append("%s = %s" % (k, v))
    lines += ["", ":: lexer", ""]
    for t in g["terms"]:
        lines.append("%s: /%s/" % (t, g.get("patterns", {}).get(t, t)))
    if g.get("uses_error"):
        lines.append("error:")
    if g.get("lexer_extra"):
        lines.append(g["lexer_extra"])
    lines += ["", ":: parser", ""]
    ins = []
    for nt, noeoi in g["inputs"]:
        ins.append(nt + (" no-eoi" if noeoi else ""))
    lines.append("%input " + ", ".join(ins) + ";")
    for assoc, terms in g.get("prec", []):
        lines.append("%%%s %s;" % (assoc, " ".join(terms)))
    if g.get("extra"):
        lines.append(g["extra"])
    lines.append("")
    if g.get("body"):
        lines.append(g["body"])
    else:
        order, by = [], {}
        for idx, (lhs, rhs) in enumerate(g["rules"]):
            if lhs not in by:
                by[lhs] = []
                order.append(lhs)
            by[lhs].append((idx, rhs))
        arrows = g.get("arrows", {})          # rule index -> node name (reported for that rule)
        ntarrows = g.get("ntarrows", {})      # nonterminal -> node name
        for lhs in order:
            alts = []
            for idx, rhs in by[lhs]:
                txt = " ".join(rhs) if rhs else "%empty"
                if g.get("rule_prec", {}).get(idx):
                    txt += " %prec " + g["rule_prec"][idx]
                if idx in arrows:
                    txt += " -> " + arrows[idx]
                alts.append(txt)
            head = lhs + ((" -> " + ntarrows[lhs]) if lhs in ntarrows else "")
            lines.append("%s :\n    %s\n;" % (head, "\n  | ".join(alts)))
    return "\n".join(lines) + "\n"


def build_scratch(ctx, items, sub="vgen"):
    """items: [{name, tm, stub}] -> runs tmprep (rebuilt from the current /repo tree), returns (dir, {name: meta})."""
    tmprep = os.path.join(VERIF, "bin", "tmprep")
    # always rebuild: tmprep links the current /repo sources
    r = subprocess.run(["go", "build", "-o", tmprep, "."], cwd=os.path.join(VERIF, "prep"), env=goenv(), capture_output=True, text=True)
    if r.returncode != 0:
        raise SystemExit("cannot build tmprep against the current tree:\n" + r.stdout + r.stderr)
    out = os.path.join(ctx.scratch, sub)
    spec = os.path.join(ctx.scratch, sub + "_spec.json")
    json.dump(items, open(spec, "w"))
    r = subprocess.run([tmprep, "-spec", spec, "-out", out, "-module", "vgen"], env=goenv(), capture_output=True, text=True)
    if r.returncode != 0:
        raise SystemExit("tmprep failed: " + r.stdout + r.stderr)
    metas = {m["name"]: m for m in json.load(open(os.path.join(out, "meta.json")))}
    return out, metas


# ---------------------------------------------------------------------------------------------
# harness data printed from the abstract grammar


def nonterminals(g):
    order = []
    for lhs, _ in g["rules"]:
        if lhs not in order:
            order.append(lhs)
    return order


def check_grammar(g):
    """Sanity of a corpus grammar: every nonterminal productive and reachable from some input."""
    nts = nonterminals(g)
    prod = set()
    changed = True
    while changed:
        changed = False
        for lhs, rhs in g["rules"]:
            if lhs not in prod and all((s in prod) or (s in g["terms"]) for s in rhs):
                prod.add(lhs)
                changed = True
    assert prod == set(nts), "unproductive nonterminal in %s: %s" % (g["name"], set(nts) - prod)
    for lhs, rhs in g["rules"]:
        for s in rhs:
            assert s in nts or s in g["terms"], "unknown symbol %s in %s" % (s, g["name"])


def data_file(g, meta, pkgname):
    """Go source with the oracle's view of the grammar (from the abstract grammar) and entry-point glue (from meta)."""
    nts = nonterminals(g)
    symid = {name: i for i, name in enumerate(meta["syms"])}
    lines = ["package " + pkgname, "", "// printed by vlib/grammars.py from corpus grammar %s" % g["name"], ""]
    terms = [symid[t] for t in g["terms"] if not g.get("input_terms") or t in g["input_terms"]]
    lines.append("const verifNumTokens = %d" % meta["num_tokens"])
    lines.append("const verifNNT = %d" % len(nts))
    lines.append("var verifTerms = []int32{%s}" % ", ".join(map(str, terms)))
    rl = []
    for lhs, rhs in g["rules"]:
        syms = [1000 + nts.index(lhs)] + [(1000 + nts.index(s)) if s in nts else symid[s] for s in rhs]
        rl.append("{" + ", ".join(map(str, syms)) + "}")
    lines.append("var verifRules = [][]int{%s}" % ", ".join(rl))
    lines.append("var verifInputs = []struct {\n\tnt    int\n\tnoeoi bool\n}{%s}" % ", ".join(
        "{%d, %s}" % (nts.index(nt), "true" if noeoi else "false") for nt, noeoi in g["inputs"]))
    # entry points as the generated code names them
    user_inputs = [i for i in meta["inputs"] if not i["synthetic"]]
    multi = len(user_inputs) > 1
    cases = []
    for k, (nt, noeoi) in enumerate(g["inputs"]):
        fn = "Parse" + (meta["sym_ids"][symid[nt]] if multi else "")
        cases.append("\tcase %d:\n\t\treturn p.%s(l)" % (k, fn))
    lines.append("func verifParse(p *Parser, l *Lexer, input int) error {\n\tswitch input {\n%s\n\t}\n\tpanic(\"bad input index\")\n}" % "\n".join(cases))
    if meta.get("has_listener"):
        lines.append("func verifInit(p *Parser) {\n\tverifEvents = nil\n\tp.Init(func(t NodeType, s, e int) { verifListen(int(t), s, e) })\n}")
    else:
        lines.append("func verifInit(p *Parser) {\n\tverifEvents = nil\n\tp.Init()\n}")
    return "\n".join(lines) + "\n"
