"""Abstract corpus grammars, the .tm printer and the scratch-module builder (tmprep front end).

A grammar is a dict:
  name     unique id (also the package name)
  terms    terminal names (single lower-case letters; eoi / invalid_token / error are implicit)
  inputs   [(nonterminal, noeoi)]
  rules    [(lhs, [rhs symbols]) ...]              plain context-free rules (the oracle's view)
  body     optional: the parser section text, when it uses notation beyond plain rules (then `rules` must be its meaning)
  opts     {"optimizeTables": True, ...}          grammar options
  prec     [("left"|"right"|"nonassoc", [terms])]
  extra    extra text for the parser section header (e.g. %expect 1;)
"""
import json
import os
import subprocess

from vlib.driver import VERIF, goenv


def print_tm(g, opts=None, pkgroot="vgen"):
    name = g["name"] if not opts else g["name"]
    o = dict(g.get("opts", {}))
    o.update(opts or {})
    lines = ["language %s(go);" % g["name"], "", 'lang = "%s"' % g["name"], 'package = "%s/%s"' % (pkgroot, g["pkg"] if "pkg" in g else g["name"])]
    o.setdefault("eventBased", True)
    for k, v in o.items():
        if isinstance(v, bool):
            v = "true" if v else "false"
        elif isinstance(v, str):
            v = '"%s"' % v
        lines.append("%s = %s" % (k, v))
    lines += ["", ":: lexer", ""]
    for t in list(g["terms"]) + list(g.get("extra_terms", "")):
        ty = g.get("term_types", {}).get(t, "int") if g.get("typed_terms") else None
        lines.append("%s%s: /%s/" % (t, (" {%s}" % ty) if ty else "", g.get("patterns", {}).get(t, t)))
    if g.get("uses_error"):
        lines.append("error:")
    if g.get("lexer_extra"):
        lines.append(g["lexer_extra"])
    lines += ["", ":: parser" + ((" lalr(%d)" % g["lalr"]) if g.get("lalr") else ""), ""]
    ins = []
    for nt, noeoi in g["inputs"]:
        ins.append(nt + (" no-eoi" if noeoi else ""))
    lines.append("%input " + ", ".join(ins) + ";")
    for assoc, terms in g.get("prec", []):
        lines.append("%%%s %s;" % (assoc, " ".join(terms)))
    if g.get("extra"):
        lines.append(g["extra"])
    lines.append("")
    if g.get("body"):
        lines.append(g["body"])
    else:
        order, by = [], {}
        for idx, (lhs, rhs) in enumerate(g["rules"]):
            if lhs not in by:
                by[lhs] = []
                order.append(lhs)
            by[lhs].append((idx, rhs))
        arrows = g.get("arrows", {})          # rule index -> node name (reported for that rule)
        ntarrows = g.get("ntarrows", {})      # nonterminal -> node name
        for lhs in order:
            alts = []
            for idx, rhs in by[lhs]:
                txt = " ".join(("{ /* mid-rule action */ }" if x.startswith("{") else x) for x in rhs) if rhs else "%empty"
                if g.get("rule_prec", {}).get(idx):
                    txt += " %prec " + g["rule_prec"][idx]
                if idx in arrows:
                    txt += " -> " + arrows[idx]
                alts.append(txt)
            head = lhs + ((" -> " + ntarrows[lhs]) if lhs in ntarrows else "")
            lines.append("%s :\n    %s\n;" % (head, "\n  | ".join(alts)))
    return "\n".join(lines) + "\n"


def build_scratch(ctx, items, sub="vgen"):
    """items: [{name, tm, stub}] -> runs tmprep (rebuilt from the current /repo tree), returns (dir, {name: meta})."""
    tmprep = os.path.join(VERIF, "bin", "tmprep")
    # always rebuild: tmprep links the current /repo sources
    r = subprocess.run(["go", "build", "-o", tmprep, "."], cwd=os.path.join(VERIF, "prep"), env=goenv(), capture_output=True, text=True)
    if r.returncode != 0:
        raise SystemExit("cannot build tmprep against the current tree:\n" + r.stdout + r.stderr)
    out = os.path.join(ctx.scratch, sub)
    spec = os.path.join(ctx.scratch, sub + "_spec.json")
    json.dump(items, open(spec, "w"))
    r = subprocess.run([tmprep, "-spec", spec, "-out", out, "-module", "vgen"], env=goenv(), capture_output=True, text=True)
    if r.returncode != 0:
        raise SystemExit("tmprep failed: " + r.stdout + r.stderr)
    metas = {m["name"]: m for m in json.load(open(os.path.join(out, "meta.json")))}
    return out, metas


# ---------------------------------------------------------------------------------------------
# harness data printed from the abstract grammar


def nonterminals(g):
    order = []
    for lhs, _ in g["rules"]:
        if lhs not in order:
            order.append(lhs)
    return order


def is_meta(sym):
    """State markers (.name) and mid-rule actions ({...}) occupy no input: the oracle ignores them."""
    return sym.startswith(".") or sym.startswith("{") or sym == "(?=" or sym.endswith(")")   # "(?= A & !B)" is printed verbatim, token by token


def check_grammar(g):
    """Sanity of a corpus grammar: every nonterminal productive and reachable from some input."""
    g = dict(g, rules=[(l, [x for x in r if not is_meta(x)]) for l, r in g["rules"]])
    nts = nonterminals(g)
    prod = set()
    changed = True
    while changed:
        changed = False
        for lhs, rhs in g["rules"]:
            if lhs not in prod and all((s in prod) or (s in g["terms"]) for s in rhs):
                prod.add(lhs)
                changed = True
    assert prod == set(nts), "unproductive nonterminal in %s: %s" % (g["name"], set(nts) - prod)
    for lhs, rhs in g["rules"]:
        for s in rhs:
            assert s in nts or s in g["terms"], "unknown symbol %s in %s" % (s, g["name"])


def data_file(g, meta, pkgname):
    """Go source with the oracle's view of the grammar (from the abstract grammar) and entry-point glue (from meta)."""
    nts = nonterminals(g)
    symid = {name: i for i, name in enumerate(meta["syms"])}
    lines = ["package " + pkgname, "", "// printed by vlib/grammars.py from corpus grammar %s" % g["name"], ""]
    terms = [symid[t] for t in g["terms"] if not g.get("input_terms") or t in g["input_terms"]]
    lines.append("const verifNumTokens = %d" % meta["num_tokens"])
    lines.append("const verifNNT = %d" % len(nts))
    lines.append("var verifTerms = []int32{%s}" % ", ".join(map(str, terms)))
    rl = []
    for lhs, rhs in g["rules"]:
        rhs = [x for x in rhs if not is_meta(x)]
        syms = [1000 + nts.index(lhs)] + [(1000 + nts.index(s)) if s in nts else symid[s] for s in rhs]
        rl.append("{" + ", ".join(map(str, syms)) + "}")
    lines.append("var verifRules = [][]int{%s}" % ", ".join(rl))
    lines.append("var verifInputs = []struct {\n\tnt    int\n\tnoeoi bool\n}{%s}" % ", ".join(
        "{%d, %s}" % (nts.index(nt), "true" if noeoi else "false") for nt, noeoi in g["inputs"]))
    # entry points as the generated code names them
    user_inputs = [i for i in meta["inputs"] if not i["synthetic"]]
    multi = len(user_inputs) > 1
    cases = []
    for k, (nt, noeoi) in enumerate(g["inputs"]):
        fn = "Parse" + (meta["sym_ids"][symid[nt]] if multi else "")
        cases.append("\tcase %d:\n\t\treturn p.%s(l)" % (k, fn))
    if not g.get("nocommonparse"):
        lines.append("func verifParse(p *Parser, l *Lexer, input int) error {\n\tswitch input {\n%s\n\t}\n\tpanic(\"bad input index\")\n}" % "\n".join(cases))
    if meta.get("has_listener"):
        lines.append("func verifInit(p *Parser) {\n\tverifEvents = nil\n\tp.Init(func(t NodeType, s, e int) { verifListen(int(t), s, e) })\n}")
    else:
        lines.append("func verifInit(p *Parser) {\n\tverifEvents = nil\n\tp.Init()\n}")
    return "\n".join(lines) + "\n"


def shim_file(meta, pkgname, pkgdir):
    """In-package export shim for a generated parser: one step of the table decode exactly as the parser template spells
    it (action for a terminal, goto for any symbol), rule data and entry/final states."""
    import re
    src = open(os.path.join(pkgdir, "parser.go")).read()
    m = re.search(r"func gotoState\(state (int\d*), symbol int32\) (int\d*)", src)
    st = m.group(1)
    L = ["package " + pkgname, "", "// export shim printed by vlib/grammars.py (scratch code, not part of the repository)", ""]
    L.append("func VerifNumStates() int { return len(tmAction) }")
    L.append("func VerifNumRules() int { return len(tmRuleLen) }")
    L.append("func VerifRuleLen(r int) int { return int(tmRuleLen[r]) }")
    L.append("func VerifRuleSym(r int) int { return int(tmRuleSymbol[r]) }")
    if meta.get("has_listener"):
        L.append("func VerifRuleType(r int) int { return int(tmRuleType[r]) }")
    else:
        L.append("func VerifRuleType(r int) int { return 0 }")
    L.append("func VerifRuleAction(r int) int { return [...]int{%s}[r] }" % ", ".join([str(r["action"]) for r in meta["rules"]] + ["-1"] * (meta["num_rules"] - len(meta["rules"]))))
    L.append("func VerifNumTokens() int { return %d }" % meta["num_tokens"])
    L.append("func VerifNumSymbols() int { return %d }" % len(meta["syms"]))
    L.append("func VerifFinal(input int) int { return [...]int{%s}[input] }" % ", ".join(map(str, meta["final_states"])))
    L.append("func VerifNumInputs() int { return %d }" % len(meta["final_states"]))
    L.append("func VerifStart(input int) int { return input }")
    L.append("func VerifGoto(state int, sym int32) int { return int(gotoState(%s(state), sym)) }" % st)
    if meta.get("has_lalr") and not meta["optimized"]:
        L.append("""// VerifExplicitError: the lookahead table lists an error for (state, sym) (a %nonassoc conflict resolution).
func VerifExplicitError(state int, sym int32) bool {
	action := tmAction[state]
	if action >= -2 {
		return false
	}
	for a := -action - 3; tmLalr[a] >= 0; a += 2 {
		if tmLalr[a] == sym {
			return tmLalr[a+1] == -2
		}
	}
	return false
}""")
    else:
        L.append("func VerifExplicitError(state int, sym int32) bool { return false }")
    L.append("")
    L.append("// VerifStep decodes the action of (state, terminal): kind 0 = reduce arg, 1 = shift to arg, 2 = error.")
    if meta["optimized"]:
        L.append("""func VerifStep(state int, sym int32) (kind, arg int) {
	action := tmAction[state]
	if action > tmActionBase {
		pos := action + sym
		if pos >= 0 && pos < tmTableLen && int32(tmCheck[pos]) == sym {
			action = int32(tmTable[pos])
		} else {
			action = tmDefAct[state]
		}
	} else {
		action = tmDefAct[state]
	}
	if action >= 0 {
		return 0, int(action)
	}
	if action < -1 {
		return 1, int(-2 - action)
	}
	return 2, 0
}""")
    else:
        lal = "\tif action < -2 {\n\t\taction = lalr(action, sym)\n\t}\n" if meta.get("has_lalr") else ""
        L.append("""func VerifStep(state int, sym int32) (kind, arg int) {
	action := tmAction[state]
%s	if action >= 0 {
		return 0, int(action)
	}
	if action == -1 {
		if t := gotoState(%s(state), sym); t >= 0 {
			return 1, int(t)
		}
	}
	return 2, 0
}""" % (lal, st))
    return "\n".join(L) + "\n"


def pair_data_file(g, metaA, metaB, pkgname):
    symid = {name: i for i, name in enumerate(metaA["syms"])}
    terms = [symid[t] for t in g["terms"] if not g.get("input_terms") or t in g["input_terms"]]
    L = ["package " + pkgname, "", "import (", '	A "vgen/%s"' % metaA["name"], '	B "vgen/%s"' % metaB["name"], ")", ""]
    L.append("var verifTerms = []int32{%s}" % ", ".join(map(str, terms)))
    for which, meta in (("A", metaA), ("B", metaB)):
        user_inputs = [i for i in meta["inputs"] if not i["synthetic"]]
        multi = len(user_inputs) > 1
        cases = []
        for k, (nt, noeoi) in enumerate(g["inputs"]):
            fn = "Parse" + (meta["sym_ids"][symid[nt]] if multi else "")
            cases.append("\tcase %d:\n\t\treturn p.%s(l)" % (k, fn))
        L.append("func verifParse%s(p *%s.Parser, l *%s.Lexer, input int) error {\n\tswitch input {\n%s\n\t}\n\tpanic(\"bad input index\")\n}" % (which, which, which, "\n".join(cases)))
    L.append("func verifNonassocError(s int, x int32) bool { return A.VerifExplicitError(s, x) }")
    return "\n".join(L) + "\n"


def ordered_rules(g):
    """Rules in the order the .tm printer emits them (grouped by left-hand side in order of first appearance)."""
    order, by = [], {}
    for lhs, rhs in g["rules"]:
        if lhs not in by:
            by[lhs] = []
            order.append(lhs)
        by[lhs].append((lhs, rhs))
    return [r for lhs in order for r in by[lhs]]
