"""Curated corpus of small context-free grammars for the parser properties (DESIGN.md appendix C)."""


def G(name, terms, inputs, rules, **kw):
    g = {"name": name, "terms": list(terms), "inputs": [(i, False) if isinstance(i, str) else i for i in inputs],
         "rules": [(l, r.split()) for l, r in rules]}   # RHS entries starting with "." are state markers, "{}" a mid-rule action
    g.update(kw)
    return g


PLAIN = [
    G("p01", "ab", ["Sx"], [("Sx", "a")]),
    G("p02", "ab", ["Sx"], [("Sx", ""), ("Sx", "a")]),
    G("p03", "ab", ["Sx"], [("Sx", "Sx a"), ("Sx", "a")]),
    G("p04", "ab", ["Sx"], [("Sx", "a Sx"), ("Sx", "a")]),
    G("p05", "abc", ["Sx"], [("Sx", "Xa Xa"), ("Xa", "a Xa"), ("Xa", "b")]),
    G("p06", "ab", ["Sx"], [("Sx", "Xa"), ("Xa", "Xb b"), ("Xb", "Xa a"), ("Xb", "")]),
    G("p08", "xyt", ["Xa", "Xb"], [("Xa", "Xb y"), ("Xb", "Xa x"), ("Xb", "t")]),
    G("p09", "abc", [("Sx", True), "Tx"], [("Sx", "Tx b"), ("Tx", "a Tx"), ("Tx", "a")]),
    G("p10", "pmlra", ["Sx"], [("Sx", "Ex"), ("Ex", "Ex p Tx"), ("Ex", "Tx"), ("Tx", "Tx m Fx"), ("Tx", "Fx"), ("Fx", "l Ex r"), ("Fx", "a")]),
    G("p11", "ca", ["Sx"], [("Sx", "Lx"), ("Lx", "Lx c a"), ("Lx", "a")]),
    G("p12", "abc", ["Sx"], [("Sx", "Ax Bx Cx"), ("Ax", ""), ("Ax", "a"), ("Bx", ""), ("Bx", "b Bx"), ("Cx", "c"), ("Cx", "")]),
    G("p13", "abd", ["Sx"], [("Sx", "Ax d"), ("Sx", "Bx b"), ("Ax", "a"), ("Bx", "a")]),                      # LALR, not LR(0)
    G("p14", "abcde", ["Sx"], [("Sx", "a Ax d"), ("Sx", "b Bx d"), ("Sx", "a Bx e"), ("Sx", "b Ax e"), ("Ax", "c"), ("Bx", "c")]) | {"expect_conflict": True},  # LR(1) but not LALR(1)
    G("p15", "ab", ["Sx"], [("Sx", "Ux"), ("Ux", "Vx"), ("Vx", "a"), ("Vx", "b Ux")]),                         # unit chains
    G("p16", "ab", [("Sx", True)], [("Sx", "a Sx b"), ("Sx", "a b")]),
    G("p17", "abc", ["Sx", "Tx", ("Ux", True)], [("Sx", "Tx c"), ("Tx", "Ux a"), ("Tx", "b"), ("Ux", "a b")]),
    G("p18", "ab", ["Sx"], [("Sx", "Sx Sx a"), ("Sx", "b")]) | {"expect_conflict": True},
    G("p19", "abcd", ["Sx"], [("Sx", "Mx a"), ("Sx", "Mx b c"), ("Sx", "d Mx d"), ("Mx", "")]),               # empty rule in several contexts
]
# wide goto columns: more than 16 transitions on one symbol (binary search branch of gotoState)
_ops = "fghijklmnopqrstuvw"
PLAIN.append(G("p20", "a" + _ops, ["Sx"], [("Sx", "Ex")] + [("Ex", "%s Ex Ex" % o) for o in _ops] + [("Ex", "a")]))

# final-state sharing: goto(entry, S) and goto(q, S) have the same LR(0) core, so the end-of-input shift that the
# compiler attaches to the former is also taken in the latter context ("b a z" is accepted, KNOWN_FINDINGS.txt)
PLAIN.append(G("p21", "abcz", ["Sx"], [("Sx", "Tx z"), ("Tx", "Sx"), ("Tx", "a"), ("Tx", "b Tx c")]) | {"known": "final-state-sharing"})
# left/right recursion mixes, nullable prefixes and suffixes
PLAIN.append(G("p22", "ab", ["Sx"], [("Sx", "Ax Sx b"), ("Sx", ""), ("Ax", "a")]))
PLAIN.append(G("p23", "abc", ["Sx", "Lx"], [("Sx", "Lx c"), ("Lx", "Lx Ix"), ("Lx", "Ix"), ("Ix", "a"), ("Ix", "b")]))
PLAIN.append(G("p24", "abc", ["Sx"], [("Sx", "Ox Px"), ("Ox", ""), ("Ox", "a"), ("Px", "Qx c"), ("Qx", ""), ("Qx", "Qx b")]))

# state markers and mid-rule actions (C01 lists both)
PLAIN.append(G("p25", "abc", ["Sx"], [("Sx", "c .mk Bx"), ("Sx", "b Bx b"), ("Bx", "a")]))
PLAIN.append(G("p26", "abcqrx", ["Sx"], [("Sx", "x x Ex q"), ("Sx", "x Ex r"), ("Ex", "c .mk Bx"), ("Ex", "b Bx b"), ("Bx", "a")]))
PLAIN.append(G("p27", "abc", ["Sx"], [("Sx", ".m1 a .m2 b"), ("Sx", ".m1 a c .m2")]))
PLAIN.append(G("p28", "abc", ["Sx"], [("Sx", "a {} b {}"), ("Sx", "a {} c"), ("Sx", "b {} Sx")]))
# a no-eoi input declared before a regular one
PLAIN.append(G("p29", "abc", [("Px", True), "Fx"], [("Px", "a b"), ("Fx", "Px c"), ("Fx", "Fx Px c")]))
# more rules than terminals, lookahead states encoded right after shift-only states (exercises the scratch counters of Optimize/defaultReduce)
PLAIN.append(G("p30", "abc", ["Ix"], [("Ix", "a b Lx a"), ("Ix", "Nx"), ("Ix", "c"), ("Lx", "b Lx"), ("Lx", ""), ("Nx", "a c c"), ("Nx", "a c")]))
PLAIN.append(G("p31", "abc", ["Ix"], [("Ix", "a b Lx a"), ("Ix", "Nx"), ("Lx", "b Lx"), ("Lx", ""), ("Nx", "a c c"), ("Nx", "a c"), ("Nx", "a a Lx c"), ("Ix", "c Nx"), ("Ix", "c c")]))
# input nonterminals that are left-recursive through another nonterminal: goto(entry, S) also holds completed items
PLAIN.append(G("p32", "ab", ["Sx"], [("Sx", "a"), ("Sx", "Xu b"), ("Xu", "Sx")]))
PLAIN.append(G("p33", "ab", ["Sx"], [("Sx", "a"), ("Sx", "Sx Yn b"), ("Yn", "")]))
PLAIN.append(G("p34", "abc", ["Sx"], [("Sx", "Ax"), ("Sx", "Ax a"), ("Sx", "Ax b"), ("Sx", "c Ax c"), ("Ax", "b")]))   # a lookahead set containing every terminal

# ---- precedence / associativity (C04, also used by C05 for explicit nonassoc errors) ----
PREC = [
    G("e01", "pma", ["Sx"], [("Sx", "Ex"), ("Ex", "Ex p Ex"), ("Ex", "Ex m Ex"), ("Ex", "a")], prec=[("left", ["p"]), ("left", ["m"])]),
    G("e02", "pwa", ["Sx"], [("Sx", "Ex"), ("Ex", "Ex p Ex"), ("Ex", "Ex w Ex"), ("Ex", "a")], prec=[("left", ["p"]), ("right", ["w"])]),
    G("e03", "lpa", ["Sx"], [("Sx", "Ex"), ("Ex", "Ex l Ex"), ("Ex", "Ex p Ex"), ("Ex", "a")], prec=[("nonassoc", ["l"]), ("left", ["p"])]),
    G("e04", "mua", ["Sx"], [("Sx", "Ex"), ("Ex", "m Ex"), ("Ex", "Ex m Ex"), ("Ex", "Ex u Ex"), ("Ex", "a")], prec=[("left", ["m"]), ("left", ["u"]), ("right", ["h"])],
      rule_prec={1: "h"}, extra_terms="h"),
    G("e05", "pmqa", ["Sx"], [("Sx", "Ex"), ("Ex", "Ex p Ex"), ("Ex", "Ex m Ex"), ("Ex", "Ex q Ex"), ("Ex", "a")], prec=[("left", ["p", "m"]), ("right", ["q"])]),
    G("e06", "ieoa", ["Sx"], [("Sx", "Tx"), ("Tx", "i Tx"), ("Tx", "i Tx e Tx"), ("Tx", "o")], prec=[("nonassoc", ["i"]), ("nonassoc", ["e"])]),   # dangling else by precedence
]


# ---- lalr(k): reduce/reduce choices that need 2..4 tokens of lookahead (C07) ----
LALRK = [
    G("q01", "abce", ["Sx"], [("Sx", "Ax a b"), ("Sx", "Bx a c"), ("Ax", "e"), ("Bx", "e")], lalr=2),
    G("q02", "abcde", ["Sx"], [("Sx", "Ax a b c"), ("Sx", "Bx a b d"), ("Ax", "e"), ("Bx", "e")], lalr=3),
    G("q03", "abcde", ["Sx"], [("Sx", "Ax a b c"), ("Sx", "Bx a b d"), ("Ax", "e"), ("Bx", "e")], lalr=8),
    G("q04", "abcdef", ["Sx"], [("Sx", "Ax a a a c"), ("Sx", "Bx a a a d"), ("Sx", "Cx a b"), ("Ax", "e"), ("Bx", "e"), ("Cx", "e")], lalr=4),
    G("q05", "abcz", ["Sx"], [("Sx", "Lx"), ("Lx", "Lx Ix"), ("Lx", "Ix"), ("Ix", "z Xx z a"), ("Ix", "z Yx z b"), ("Xx", "c"), ("Yx", "c")], lalr=2),     # the choice repeats along a list
    G("q06", "abcde", ["Sx"], [("Sx", "Ax a b"), ("Sx", "Bx a c"), ("Sx", "d Ax a c"), ("Sx", "d Bx a b"), ("Ax", "e"), ("Bx", "e")], lalr=2) | {"expect_conflict": True},   # the same pair in two contexts with swapped continuations: not LALR(2)
    # the lookahead window crosses a nullable nonterminal that follows a terminal
    G("q09", "abcen", ["Sx"], [("Sx", "Ax a Nx b"), ("Sx", "Bx a c"), ("Nx", ""), ("Nx", "n n"), ("Ax", "e"), ("Bx", "e")], lalr=2),
    # two conflicts whose resolution automata have the same shape (same edge terminals, different continuations)
    G("q10", "abcdef", ["Sx"], [("Sx", "Ax a b c"), ("Sx", "Bx a b d"), ("Sx", "Cx a b d a"), ("Sx", "Dx a b c a"), ("Ax", "e"), ("Bx", "e"), ("Cx", "f"), ("Dx", "f")], lalr=3) | {"cap": 8000},
    # the window crosses the end of a rule: the token after 'a' belongs to the enclosing rule
    G("q11", "acde", ["Sx"], [("Sx", "Ax Tx c"), ("Sx", "Bx a d"), ("Tx", "a"), ("Ax", "e"), ("Bx", "e")], lalr=3),
    G("q08", "abce", [("Sx", True)], [("Sx", "Ax a b"), ("Sx", "Bx a c"), ("Ax", "e"), ("Bx", "e")], lalr=2),                                            # no-eoi input
]
