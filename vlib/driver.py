"""Driver for the solver-based checks: builds jobs, runs symgo shards in parallel, replays
counterexamples natively, applies the known-findings protocol and writes evidence."""
import concurrent.futures as cf
import hashlib
import importlib
import json
import os
import re
import shutil
import subprocess
import sys
import tempfile
import time

VERIF = os.path.dirname(os.path.dirname(os.path.abspath(__file__)))
REPO = os.environ.get("VERIF_REPO", "/repo")
MOD = "github.com/inspirer/textmapper"
GOROOT_BIN = "/opt/veriftools/go1.26.8/bin"
NCPU = int(os.environ.get("VERIF_JOBS", "16"))


def goenv():
    env = dict(os.environ)
    env.update({"GOFLAGS": "-mod=mod", "GOPROXY": "off", "GOSUMDB": "off", "GOTOOLCHAIN": "local",
                "PATH": GOROOT_BIN + ":" + env.get("PATH", ""), "CGO_ENABLED": "0"})
    env.setdefault("GOMAXPROCS", "2")
    return env


class Job:
    """One symbolic run: entry function + parameters, in a package with an overlay harness."""

    def __init__(self, rel, pkgname, harness, entry, params=None, flags=None, tag="", extra_overlay=None,
                 twin=False, load_dir=None, pkg_pattern=None, cost=1.0, expect_violation=None, only_kf=None,
                 import_path=None, deadline=None, kf_ids=None):
        self.rel = rel                  # package directory relative to load_dir (e.g. util/container)
        self.pkgname = pkgname
        self.harness = harness if isinstance(harness, list) else [harness]   # files under /verif/harness or absolute
        self.entry = entry
        self.params = dict(params or {})
        self.flags = list(flags or [])
        self.tag = tag or entry
        self.extra_overlay = dict(extra_overlay or {})   # virtual path -> real path
        self.twin = twin                # witness (vacuity) twin: must report the 'witness' assertion
        self.load_dir = load_dir or REPO
        self.pkg_pattern = pkg_pattern or ("./" + rel)
        self.cost = cost
        self.only_kf = only_kf          # slug of the known finding this job confirms (violation expected)
        self.kf_ids = kf_ids            # assertion ids / kinds the known finding explains (None = any); others are violations
        self.import_path = import_path or (MOD + "/" + rel)
        self.deadline = deadline        # seconds of wall clock for this entry (None = tier default)
        self.result = None

    def group_key(self):
        return (self.load_dir, self.rel, self.pkgname, tuple(self.harness), tuple(sorted(self.extra_overlay.items())),
                tuple(self.flags), self.pkg_pattern, self.import_path)


class Ctx:
    def __init__(self, pid, tier, seed):
        self.pid, self.tier, self.seed = pid, tier, seed
        self.scratch = tempfile.mkdtemp(prefix="verif_%s_" % pid, dir=os.environ.get("VERIF_SCRATCH", "/var/tmp"))
        self.t0 = time.time()
        self.notes = []
        self.problems = []     # set-up problems reported by property modules (make the run inconclusive)

    def cleanup(self):
        shutil.rmtree(self.scratch, ignore_errors=True)


def harness_path(h):
    return h if os.path.isabs(h) else os.path.join(VERIF, "harness", h)


def write_overlay(ctx, job, native, gdir):
    """Materialise overlay files for a job group; returns overlay json path."""
    os.makedirs(gdir, exist_ok=True)
    pre = open(os.path.join(VERIF, "harness", "prelude_native.go.txt" if native else "prelude.go.txt")).read()
    pre = pre.replace("package PKG", "package " + job.pkgname)
    ppath = os.path.join(gdir, "prelude_native.go" if native else "prelude.go")
    open(ppath, "w").write(pre)
    base = os.path.join(job.load_dir, job.rel)
    rep = {os.path.join(base, "zz_verif_prelude.go"): ppath}
    for i, h in enumerate(job.harness):
        rep[os.path.join(base, "zz_verif_h%d.go" % i)] = harness_path(h)
    for virt, real in job.extra_overlay.items():
        if native and os.path.exists(real + ".native"):
            real = real + ".native"       # file with real bodies for the replay build
        rep[virt] = real
    return rep


def build_tools(ctx):
    """(Re)build symgo if needed. tmprep-style helpers are built by the property modules."""
    symgo = os.path.join(VERIF, "bin", "symgo")
    src_m = 0
    for root, _, files in os.walk(os.path.join(VERIF, "engine")):
        for f in files:
            src_m = max(src_m, os.path.getmtime(os.path.join(root, f)))
    if not os.path.exists(symgo) or os.path.getmtime(symgo) < src_m:
        os.makedirs(os.path.join(VERIF, "bin"), exist_ok=True)
        r = subprocess.run(["go", "build", "-o", symgo, "./cmd/symgo"], cwd=os.path.join(VERIF, "engine"), env=goenv(),
                           capture_output=True, text=True)
        if r.returncode != 0:
            print(r.stdout + r.stderr)
            raise SystemExit("cannot build symgo")
    return symgo


def run_shard(args):
    symgo, gdir, idx, overlay_json, load_dir, patterns, flags, jobspecs, timeout = args
    jf = os.path.join(gdir, "jobs_%d.json" % idx)
    of = os.path.join(gdir, "out_%d.json" % idx)
    json.dump(jobspecs, open(jf, "w"))
    cmd = [symgo, "-dir", load_dir, "-overlay", overlay_json, "-pkg", patterns, "-jobs", jf, "-out", of] + flags
    t0 = time.time()
    try:
        r = subprocess.run(cmd, env=goenv(), capture_output=True, text=True, timeout=timeout)
        rc, err = r.returncode, r.stderr
    except subprocess.TimeoutExpired as ex:
        rc, err = 124, "timeout after %ss" % timeout
    res = None
    if os.path.exists(of):
        try:
            res = json.load(open(of))["results"]
        except Exception as ex:  # noqa
            err += "\nbad result json: %s" % ex
    return idx, rc, err, res, time.time() - t0


def run_jobs(ctx, jobs, timeout=3000):
    """Runs all jobs; fills job.result (dict) or job.error. Jobs that agree on (load_dir, flags) are bin-packed into
    at most NCPU symgo processes; each process loads the union of the packages its jobs need (one load of the
    dependency closure per process instead of one per package)."""
    symgo = build_tools(ctx)
    ctx.shard_walls = getattr(ctx, "shard_walls", [])
    classes = {}
    for j in jobs:
        classes.setdefault((j.load_dir, tuple(j.flags)), []).append(j)
    shards = []
    total_cost = max(1e-9, sum(j.cost for j in jobs))
    ci = 0
    for (load_dir, flags), cjobs in classes.items():
        share = sum(j.cost for j in cjobs) / total_cost
        n = max(1, min(len(cjobs), round(share * NCPU * 1.5)))
        # keep the jobs of one package together where possible: sort by (package cost desc, package) then greedy
        buckets = [[] for _ in range(n)]
        loads = [0.0] * n
        bypkg = {}
        for j in cjobs:
            bypkg.setdefault(j.group_key(), []).append(j)
        units = []
        avg = sum(j.cost for j in cjobs) / n
        for key, pj in bypkg.items():
            pj = sorted(pj, key=lambda j: -j.cost)
            c = sum(j.cost for j in pj)
            if c > 1.2 * avg and len(pj) > 1:
                units.extend([[j] for j in pj])     # a heavy package is split job by job
            else:
                units.append(pj)
        for u in sorted(units, key=lambda u: -sum(j.cost for j in u)):
            k = loads.index(min(loads))
            buckets[k].extend(u)
            loads[k] += sum(j.cost for j in u)
        for k, b in enumerate(buckets):
            if not b:
                continue
            gdir = os.path.join(ctx.scratch, "c%d_s%d" % (ci, k))
            os.makedirs(gdir, exist_ok=True)
            rep, pats, seen = {}, [], set()
            for j in b:
                gk = j.group_key()
                if gk in seen:
                    continue
                seen.add(gk)
                sub = os.path.join(gdir, "p%d" % len(seen))
                rep.update(write_overlay(ctx, j, False, sub))
                if j.pkg_pattern not in pats:
                    pats.append(j.pkg_pattern)
            ov = os.path.join(gdir, "overlay.json")
            json.dump({"Replace": rep}, open(ov, "w"))
            dflt = 400 if ctx.tier == "quick" else 1500
            specs = [{"entry": j.import_path + "." + j.entry, "params": j.params, "witness": j.twin, "tag": j.tag,
                      "deadline_s": j.deadline or dflt} for j in b]
            shards.append((b, (symgo, gdir, k, ov, load_dir, ",".join(pats), list(flags), specs, timeout)))
        ci += 1
    with cf.ThreadPoolExecutor(max_workers=NCPU) as pool:
        futs = {pool.submit(run_shard, s[1]): s[0] for s in shards}
        for fut in cf.as_completed(futs):
            b = futs[fut]
            idx, rc, err, res, wall = fut.result()
            ctx.shard_walls.append((round(wall, 1), b[0].rel, len(b)))
            for i, j in enumerate(b):
                j.shard_rc, j.shard_err = rc, err
                j.result = res[i] if res and i < len(res) else None
                if j.result is None:
                    j.error = "symgo produced no result (rc=%s): %s" % (rc, err[-2000:])
                else:
                    j.error = None


# ---------------------------------------------------------------------------------------------
# native replay


def replay(ctx, job, violation, keep_dir):
    """Replays a counterexample against the real build. Returns (reproduced, detail, replay_path)."""
    os.makedirs(keep_dir, exist_ok=True)
    h = hashlib.sha1(json.dumps([job.entry, job.params, violation["witness"], violation["id"]], sort_keys=True).encode()).hexdigest()[:12]
    wpath = os.path.join(keep_dir, "%s_%s.json" % (job.entry, h))
    rec = {"property": ctx.pid, "entry": job.entry, "rel": job.rel, "pkgname": job.pkgname, "harness": job.harness,
           "params": job.params, "witness": violation["witness"], "names": violation.get("names"), "kind": violation["kind"],
           "id": violation["id"], "detail": violation.get("detail"), "witness_mode": job.twin, "load_dir": job.load_dir,
           "extra_overlay": job.extra_overlay, "notes": violation.get("notes"), "tier": ctx.tier}
    json.dump(rec, open(wpath, "w"), indent=1)
    ok, detail = replay_file(ctx, wpath)
    return ok, detail, wpath


def replay_file(ctx, wpath):
    rec = json.load(open(wpath))
    job = Job(rec["rel"], rec["pkgname"], rec["harness"], rec["entry"], rec["params"], extra_overlay=rec.get("extra_overlay"),
              load_dir=rec.get("load_dir"))
    gdir = tempfile.mkdtemp(prefix="replay_", dir=ctx.scratch)
    rep = write_overlay(ctx, job, True, gdir)
    tpath = os.path.join(gdir, "zz_verif_replay_test.go")
    open(tpath, "w").write("package %s\n\nimport \"testing\"\n\nfunc TestVerifReplay(t *testing.T) { verifReplay(%s) }\n" % (job.pkgname, job.entry))
    rep[os.path.join(job.load_dir, job.rel, "zz_verif_replay_test.go")] = tpath
    ov = os.path.join(gdir, "overlay.json")
    json.dump({"Replace": rep}, open(ov, "w"))
    env = goenv()
    env["VERIF_WITNESS"] = wpath
    cmd = ["go", "test", "-v", "-vet=off", "-count=1", "-overlay", ov, "-run", "^TestVerifReplay$", "-timeout", "40s" if rec.get("id") == "terminates-within-the-step-bound" else "120s", "./" + job.rel]
    try:
        r = subprocess.run(cmd, cwd=job.load_dir, env=env, capture_output=True, text=True, timeout=300)
        out = r.stdout + r.stderr
    except subprocess.TimeoutExpired:
        out = "VERIF-REPLAY timeout"
    m = re.search(r"VERIF-REPLAY (.*)", out)
    kind, vid = rec["kind"], rec["id"]
    if vid == "terminates-within-the-step-bound":
        # bounded termination: natively the run must not finish either (the test binary is killed by its -timeout)
        if not m and ("test timed out" in out or "VERIF-REPLAY timeout" in out):
            return True, "native run did not terminate within the test timeout"
        return False, "native run terminated: " + (m.group(1) if m else out[-300:])
    if not m:
        # process exit (log.Fatal / os.Exit) or build failure
        if kind == "fatal" and ("exit status" in out or "FAIL" in out) and "build failed" not in out and "cannot" not in out.split("\n")[0]:
            return True, "process exited: " + out[-300:]
        return False, "no verdict line: " + out[-600:]
    line = m.group(1)
    if kind == "assert":
        fm = re.search(r"failed=\[(.*)\]", line)
        failed = re.findall(r'"([^"]*)"', fm.group(1)) if fm else []
        if vid in failed:
            return True, line
        return False, line
    if kind == "panic":
        return ("panic=" in line), line
    if kind == "fatal":
        return False, line
    return False, line


# ---------------------------------------------------------------------------------------------
# known findings


def load_known():
    """Returns {property: {slug: entrydict}} for 'finding:' lines and the list of 'fixed:' lines."""
    path = os.path.join(VERIF, "KNOWN_FINDINGS.txt")
    findings, fixed = {}, []
    if not os.path.exists(path):
        return findings, fixed
    for line in open(path):
        line = line.strip()
        if not line or line.startswith("#"):
            continue
        if line.startswith("finding:"):
            m = re.match(r"finding:\s+property=(\S+)\s+key=(\S+)\s+what=(.*)", line)
            if m:
                findings.setdefault(m.group(1), {})[m.group(2)] = {"what": m.group(3)}
        elif line.startswith("fixed:"):
            fixed.append(line)
    return findings, fixed


# ---------------------------------------------------------------------------------------------
# main flow


def summarize(jobs):
    tot = {"paths": 0, "queries": 0, "unsat": 0, "sat": 0, "unknown": 0, "solver_ms": 0, "instrs": 0, "merges": 0, "forks": 0}
    asserts, funcs, caps, stubs, outcomes = {}, {}, {}, {}, {}
    for j in jobs:
        r = j.result
        if not r:
            continue
        tot["paths"] += r["stats"]["paths"]
        tot["instrs"] += r["stats"]["instrs"]
        tot["merges"] += r["stats"]["merges"]
        tot["forks"] += r["stats"]["forks"]
        q = r["queries"]
        tot["queries"] += q["n"]
        tot["unsat"] += q["unsat"]
        tot["sat"] += q["sat"]
        tot["unknown"] += q["unknown"]
        tot["solver_ms"] += q["ms"]
        for k, v in r["asserts"].items():
            a = asserts.setdefault(k, {"checked": 0, "failed": 0, "unknown": 0, "trivial": 0})
            for kk in a:
                a[kk] += v[kk]
        for f in r["functions"]:
            funcs[f["name"]] = funcs.get(f["name"], 0) + f["instrs"]
        for k, v in r["caps_hit"].items():
            caps[k] = caps.get(k, 0) + v
        for k, v in r["stubs"].items():
            stubs[k] = stubs.get(k, 0) + v
        for k, v in r["outcomes"].items():
            outcomes[k] = outcomes.get(k, 0) + v
    return tot, asserts, funcs, caps, stubs, outcomes


def main(argv):
    if len(argv) >= 3 and argv[1] == "--replay":
        return main_replay(argv[2])
    if len(argv) < 3:
        print("usage: check <id> quick|thorough | check <id> --replay <path>")
        return 2
    pid, tier = argv[1], argv[2]
    if tier == "--replay":
        return main_replay(argv[3])
    tier = os.environ.get("VERIF_TIER", tier)
    seed = int(os.environ.get("VERIF_SEED", "0") or 0)
    sys.path.insert(0, VERIF)
    mod = importlib.import_module("props." + pid)
    ctx = Ctx(pid, tier, seed)
    try:
        return run_property(ctx, mod)
    finally:
        ctx.cleanup()


def main_replay(path):
    rec = json.load(open(path))
    hs = rec["harness"] if isinstance(rec["harness"], (list, tuple)) else [rec["harness"]]
    need = [rec.get("load_dir")] + [h for h in hs if os.path.isabs(h)] + list((rec.get("extra_overlay") or {}).values())
    missing = [p for p in need if p and not os.path.exists(p)]
    ctx = Ctx(rec.get("property", "replay") if missing else "replay", rec.get("tier") or "quick", 0)
    try:
        if missing:
            # the counterexample refers to generated code of a finished run: regenerate it from the current /repo tree
            sys.path.insert(0, VERIF)
            mod = importlib.import_module("props." + rec["property"])
            match = []
            for tier in [rec.get("tier") or "quick", "thorough"]:
                ctx.tier = tier
                match = [j for j in mod.jobs(ctx) if j.rel == rec["rel"] and j.pkgname == rec["pkgname"] and j.entry == rec["entry"]]
                if match:
                    break
            if not match:
                print("REPLAY NOT reproduced: the package %s of this counterexample is not generated any more" % rec["rel"])
                return 0
            j = match[0]
            rec.update(harness=j.harness, load_dir=j.load_dir, extra_overlay=j.extra_overlay)
            path = os.path.join(ctx.scratch, "replay_" + os.path.basename(path))
            json.dump(rec, open(path, "w"))
        ok, detail = replay_file(ctx, path)
        print("REPLAY %s: %s" % ("reproduced" if ok else "NOT reproduced", detail))
        return 1 if ok else 0
    finally:
        ctx.cleanup()


def run_property(ctx, mod):
    pid, tier = ctx.pid, ctx.tier
    findings_all, fixed = load_known()
    known = findings_all.get(pid, {})
    ctx.known = known
    jobs = mod.jobs(ctx)          # may build helper tools / generate code into ctx.scratch
    t_prep = time.time() - ctx.t0
    # vacuity twins: modules mark them with twin=True
    run_jobs(ctx, jobs)
    t_run = time.time() - ctx.t0 - t_prep
    if os.environ.get("VERIF_TIMING"):
        print("timing: prep %.1fs run %.1fs; slowest shards: %s" % (t_prep, t_run, sorted(ctx.shard_walls, reverse=True)[:8]))
    lines, violations, known_hits, inconclusive, spurious = [], [], [], list(ctx.problems), 0
    replay_dir = os.path.join(VERIF, "evidence", "replay", pid)
    if os.path.isdir(replay_dir):
        shutil.rmtree(replay_dir)
    twin_ok = twin_total = 0
    samples = []
    seen_v = set()
    for j in jobs:
        if j.result is None:
            inconclusive.append("%s: %s" % (j.tag, j.error))
            continue
        r = j.result
        r["violations"] = r.get("violations") or []
        r["samples"] = r.get("samples") or []
        if j.twin:
            twin_total += 1
            if any(v["id"] == "witness" for v in r["violations"]):
                twin_ok += 1
            else:
                inconclusive.append("%s: vacuity twin did not reach its final assertion (outcomes %s, caps %s)" % (j.tag, r["outcomes"], r["caps_hit"]))
            continue
        if r["caps_hit"]:
            inconclusive.append("%s: %s" % (j.tag, "; ".join("%s x%d" % kv for kv in list(r["caps_hit"].items())[:4])))
        if r["init_bad"]:
            ctx.notes.append("package initialisers not fully interpreted: %s" % r["init_bad"])
        for s in r["samples"][:2]:
            samples.append({"job": j.tag, "params": j.params, "outcome": s["outcome"], "witness": s["witness"][:24], "pc_size": s["pc_size"]})
        got_expected = False
        for v in r["violations"]:
            is_kf = bool(j.only_kf and j.only_kf in known and (j.kf_ids is None or v["id"] in j.kf_ids))
            key = (j.only_kf, j.rel, j.entry, v["kind"], v["id"]) if is_kf else (j.rel, j.entry, json.dumps(j.params, sort_keys=True), v["kind"], v["id"])
            if key in seen_v and (is_kf or len(seen_v) > 6):
                continue
            if v["id"] == "terminates-within-the-step-bound" and sum(1 for k in seen_v if k[-1] == v["id"]) >= 2:
                continue        # each native confirmation of non-termination costs a full test timeout: two are enough
            seen_v.add(key)
            ok, detail, wpath = replay(ctx, j, v, replay_dir)
            if not ok:
                spurious += 1
                inconclusive.append("%s: counterexample for %s did not reproduce natively (%s)" % (j.tag, v["id"], detail[-200:]))
                continue
            if j.only_kf and j.only_kf in known and (j.kf_ids is None or v["id"] in j.kf_ids):
                got_expected = True
                if j.only_kf not in known_hits:
                    known_hits.append(j.only_kf)
                    lines.append("KNOWN-FINDING: property=%s %s [%s; replay=%s]" % (pid, known[j.only_kf]["what"], j.only_kf, wpath))
            else:
                violations.append((j, v, wpath, detail))
    out_lines = []
    for j, v, wpath, detail in violations[:10]:
        out_lines.append("VIOLATION property=%s replay=%s" % (pid, wpath))
        out_lines.append("  (%s %s in %s params=%s: %s)" % (v["kind"], v["id"], j.entry, j.params, (v.get("detail") or "")[:200]))
    tot, asserts, funcs, caps, stubs, outcomes = summarize([j for j in jobs if not j.twin])
    wall = time.time() - ctx.t0
    obligations = sum(a["checked"] for a in asserts.values())
    failed = sum(a["failed"] for a in asserts.values())
    unknown = sum(a["unknown"] for a in asserts.values())
    info = mod.describe(ctx) if hasattr(mod, "describe") else {}
    ev = {
        "property_id": pid, "tier": tier, "seed": ctx.seed, "level": "other",
        "coverage": {
            "explanation": info.get("explanation", ""),
            "technique": "bounded symbolic execution of go/ssa into SMT (z3), one query per assertion/branch; counterexamples replayed natively",
            "bounds": info.get("bounds", {}),
            "outside_claim": info.get("outside", []),
            "functions_encoded": sorted(funcs.keys())[:400],
            "functions_encoded_count": len(funcs),
            "jobs": len([j for j in jobs if not j.twin]),
            "paths": tot["paths"], "path_outcomes": outcomes, "ssa_instructions_executed": tot["instrs"],
            "state_merges": tot["merges"], "forks": tot["forks"],
            "obligations": obligations, "discharged": obligations - failed - unknown, "failed": failed, "unknown": unknown,
            "assertions": asserts,
            "queries": {"n": tot["queries"], "unsat": tot["unsat"], "sat": tot["sat"], "unknown": tot["unknown"], "solver_s": round(tot["solver_ms"] / 1000.0, 2)},
            "solver": "z3 5.1.0 (z3-new), incremental push/pop; cross-checks with z3 4.8.12/cvc5 in the engine self-test",
            "evaluations": tot["paths"], "distinct_nontrivial": tot["paths"] - outcomes.get("infeasible", 0),
            "rule": "each evaluation is one symbolic path class (distinct path condition) of the harness; infeasible ones excluded from distinct_nontrivial",
            "samples": samples[:12] or [{"note": "no finished path"}],
            "caps_hit": caps, "stubs_and_models": stubs,
            "vacuity_twins": {"run": twin_total, "reached_final_assertion": twin_ok},
            "spurious_counterexamples": spurious,
            "known_findings_confirmed": known_hits,
            "inconclusive": inconclusive[:20],
            "trusted_base": info.get("trusted", []),
            "notes": ctx.notes[:20],
        },
        "assumptions": info.get("assumptions", []),
        "wall_s": round(wall, 2),
        "violations": len(violations),
    }
    os.makedirs(os.path.join(VERIF, "evidence"), exist_ok=True)
    evpath = os.path.join(VERIF, "evidence", "%s.json" % pid)
    json.dump(ev, open(evpath, "w"), indent=1)
    validate_evidence(evpath)
    for l in lines:
        print(l)
    for l in out_lines:
        print(l)
    print("%s %s: jobs=%d paths=%d obligations=%d discharged=%d queries=%d solver=%.1fs wall=%.1fs violations=%d known=%d inconclusive=%d" % (
        pid, tier, ev["coverage"]["jobs"], tot["paths"], obligations, obligations - failed - unknown, tot["queries"], tot["solver_ms"] / 1000.0, wall,
        len(violations), len(known_hits), len(inconclusive)))
    if violations:
        return 1
    if inconclusive:
        for l in inconclusive[:10]:
            print("INCONCLUSIVE " + l)
        return 2
    return 0


def validate_evidence(path):
    try:
        import jsonschema
    except ImportError:
        return
    schema = json.load(open("/root/.vp/EVIDENCE.schema.json")) if os.path.exists("/root/.vp/EVIDENCE.schema.json") else None
    if schema is None:
        sp = os.path.join(VERIF, "vlib", "EVIDENCE.schema.json")
        if not os.path.exists(sp):
            return
        schema = json.load(open(sp))
    jsonschema.validate(json.load(open(path)), schema)
