"""Reference evaluation of token-set expressions (first/last/follow/precede/any, | & ~, named sets) over an extended-notation
corpus grammar, by naive fixpoints over a reference desugaring. Independent of syntax/set.go and util/set.

Set expressions: ("first", X) ("last", X) ("follow", X) ("precede", X) ("any", X) with X a terminal or nonterminal name,
("or", [e...]) ("and", [e...]) ("not", e) ("ref", name of a %generate set).
In grammars, a set is used as ("setx", expr) inside rules and as g["named_sets"] = [(name, expr)].
"""


def ptm_set(e):
    k = e[0]
    if k in ("first", "last", "follow", "precede"):
        return "%s %s" % (k, e[1])
    if k == "any":
        return e[1]
    if k == "or":
        return "(" + " | ".join(ptm_set(x) for x in e[1]) + ")"
    if k == "and":
        return "(" + " & ".join(ptm_set(x) for x in e[1]) + ")"
    if k == "not":
        return "~" + ptm_set(e[1])
    if k == "ref":
        return e[1]
    raise ValueError(k)


class Desugar:
    def __init__(self, g):
        self.g = g
        self.rules = []        # (lhs, [symbols]); symbols: terminal names, nonterminal names, ("SET", id)
        self.fresh = 0
        self.sets = []         # set expressions used in rules
        for name, alts in g["nts"]:
            for expr, _ in alts:
                for seq in self.alts(expr):
                    self.rules.append((name, seq))

    def new(self):
        self.fresh += 1
        return "#%d" % self.fresh

    def alts(self, e):
        """list of symbol sequences denoted by e (finite: lists and nested constructs become fresh nonterminals)"""
        k = e[0]
        if k in ("t", "n"):
            return [[e[1]]]
        if k == "seq":
            out = [[]]
            for x in e[1]:
                out = [a + b for a in out for b in self.alts(x)]
            return out
        if k == "opt":
            return [[]] + self.alts(e[1])
        if k == "alt":
            out = []
            for x in e[1]:
                out += self.alts(x)
            return out
        if k in ("arrow", "alias"):
            return self.alts(e[2])
        if k in ("empty", "marker", "la", "act"):
            return [[]]
        if k == "list":
            nt = self.new()
            for a in self.alts(e[1]):
                self.rules.append((nt, a))
                self.rules.append((nt, [nt] + list(e[2]) + a))
            return [[nt]] if e[3] else [[], [nt]]
        if k == "setx":
            self.sets.append(e[1])
            return [[("SET", len(self.sets) - 1)]]
        raise ValueError(k)


def evaluate(g, all_terms):
    """Returns (values of the set expressions used in rules, values of named sets), each a sorted list of terminal names.
    all_terms: every terminal of the compiled grammar (the universe of ~), in token-id order."""
    d = Desugar(g)
    named = dict(g.get("named_sets", []))
    start = next(nt for nt, noeoi in g["inputs"] if not noeoi)
    vals = [set() for _ in d.sets]
    nvals = {n: set() for n in named}
    terms = set(all_terms)
    for _ in range(12):
        # plain rules with sets expanded to their current values, restricted to what the first eoi input reaches
        rules = []
        for lhs, rhs in d.rules:
            rules.append((lhs, rhs))
        # a set(...) occurrence is a pseudo terminal ("SET", k): never nullable, its first/last/any terminals are its current value
        plain = [(lhs, list(rhs)) for lhs, rhs in rules]
        reach, work = {start}, [start]
        while work:
            x = work.pop()
            for lhs, rhs in plain:
                if lhs == x:
                    for s in rhs:
                        if isinstance(s, tuple):
                            continue
                        if s not in terms and s not in reach:
                            reach.add(s)
                            work.append(s)
        plain = [(l, r) for l, r in plain if l in reach]
        nts = {l for l, _ in plain}
        nullable = set()
        ch = True
        while ch:
            ch = False
            for l, r in plain:
                if l not in nullable and all(s in nullable for s in r):
                    nullable.add(l)
                    ch = True
        def fix(init, step):
            cur = init
            while True:
                new = step(cur)
                if new == cur:
                    return cur
                cur = new
        def T(table, s):
            if isinstance(s, tuple):
                return set(vals[s[1]])
            return {s} if s in terms else table.get(s, set())
        import collections
        first = collections.defaultdict(set)
        last = collections.defaultdict(set)
        anyt = collections.defaultdict(set)
        ch = True
        while ch:
            ch = False
            for l, r in plain:
                for s in r:
                    add = T(first, s) - first[l]
                    if add:
                        first[l] |= add
                        ch = True
                    if s not in nullable:
                        break
                for s in reversed(r):
                    add = T(last, s) - last[l]
                    if add:
                        last[l] |= add
                        ch = True
                    if s not in nullable:
                        break
                for s in r:
                    add = T(anyt, s) - anyt[l]
                    if add:
                        anyt[l] |= add
                        ch = True
        import collections
        follow = collections.defaultdict(set)
        precede = collections.defaultdict(set)
        first = collections.defaultdict(set, first)
        last = collections.defaultdict(set, last)
        ch = True
        while ch:
            ch = False
            for l, r in plain:
                for i, s in enumerate(r):
                    scoped = False
                    for t in r[i + 1:]:
                        add = T(first, t) - follow[s]
                        if add:
                            follow[s] |= add
                            ch = True
                        if t not in nullable:
                            scoped = True
                            break
                    if not scoped:
                        add = follow[l] - follow[s]
                        if add:
                            follow[s] |= add
                            ch = True
                    scoped = False
                    for t in reversed(r[:i]):
                        add = T(last, t) - precede[s]
                        if add:
                            precede[s] |= add
                            ch = True
                        if t not in nullable:
                            scoped = True
                            break
                    if not scoped:
                        add = precede[l] - precede[s]
                        if add:
                            precede[s] |= add
                            ch = True
        def ev(e):
            k = e[0]
            if k == "first":
                return set(T(first, e[1]))
            if k == "last":
                return set(T(last, e[1]))
            if k == "any":
                return set(T(anyt, e[1]))
            if k == "follow":
                return set(follow.get(e[1], set()))
            if k == "precede":
                return set(precede.get(e[1], set()))
            if k == "or":
                out = set()
                for x in e[1]:
                    out |= ev(x)
                return out
            if k == "and":
                out = set(terms)
                for x in e[1]:
                    out &= ev(x)
                return out
            if k == "not":
                return terms - ev(e[1])
            if k == "ref":
                return set(nvals[e[1]])
            raise ValueError(k)
        new_vals = [ev(e) for e in d.sets]
        new_nvals = {n: ev(e) for n, e in named.items()}
        if new_vals == vals and new_nvals == nvals:
            break
        vals, nvals = new_vals, new_nvals
    order = {t: i for i, t in enumerate(all_terms)}
    return [sorted(v, key=order.get) for v in vals], {n: sorted(v, key=order.get) for n, v in nvals.items()}
