"""Extended-notation corpus grammars: abstract trees, .tm printer, Go literal printer for the reference interpreter.

Expression forms (tuples):
  ("t", name)  ("n", name)  ("seq", [e...])  ("opt", e)  ("alt", [e...])  ("list", e, [separator terminals], plus)
  ("arrow", NodeName, e)   ("set", [terminal names], text)     ("empty",)
Grammar: {"name", "terms", "inputs": [(nt, noeoi)], "nts": [(name, [(expr, rule_arrow|None) ...])], "opts": {...}}
"""
import json

from vlib import grammars


def T(n):
    return ("t", n)


def N(n):
    return ("n", n)


def S(*k):
    return ("seq", list(k))


def O(e):
    return ("opt", e)


def A(*k):
    return ("alt", list(k))


def L(e, plus=True, sep=()):
    return ("list", e, list(sep), plus)


def AR(node, e):
    return ("arrow", node, e)


def auto(x):
    if isinstance(x, str):
        return T(x) if x[0].islower() and len(x) == 1 else N(x)
    return x


def seq(*xs):
    return ("seq", [auto(x) for x in xs])


def ptm(e, top=False):
    k = e[0]
    if k in ("t", "n"):
        if len(e) > 2 and e[2]:
            from vlib import tmplgram
            return e[1] + tmplgram.pargs(e[2])
        return e[1]
    if k == "cond":
        from vlib import tmplgram
        return "[" + tmplgram.ppred(e[1]) + "] " + ptm(e[2], True)
    if k == "seq":
        if not e[1]:
            return "%empty" if top else ""
        s = " ".join(ptm(x) for x in e[1])
        return s if top or len(e[1]) == 1 else "(" + s + ")"
    if k == "opt":
        return "(" + ptm(e[1], True) + ")?"
    if k == "alt":
        return "(" + " | ".join(ptm(x, True) for x in e[1]) + ")"
    if k == "list":
        inner = ptm(e[1], True)
        if e[2]:
            inner += " separator " + " ".join(e[2])
        return "(" + inner + ")" + ("+" if e[3] else "*")
    if k == "arrow":
        return "(" + ptm(e[2], True) + " -> " + e[1] + ")"
    if k == "set":
        return e[2]
    if k == "empty":
        return "%empty" if top else ""
    if k == "marker":
        return "." + e[1]
    if k == "la":
        return "(?= " + " & ".join(("!" if neg else "") + nt for nt, neg in e[1]) + ")"
    if k == "setx":
        from vlib import setref
        return "set(" + setref.ptm_set(e[1]) + ")"
    if k == "alias":
        return ptm(e[2]) + "[" + e[1] + "]"
    if k == "act":
        args = []
        for name, prop in e[2]:
            if prop == "value":
                args.append("verifVal($%s)" % name)
            else:
                args.append("${%s.%s}" % (name, prop))
        return "{ verifAct(%d%s) }" % (e[1], "".join(", " + a for a in args))
    raise ValueError(k)


def print_tm(g, opts=None):
    if g.get("tnts"):
        from vlib import tmplgram
        return tmplgram.print_tm(g, opts)
    body = []
    for name, alts in g["nts"]:
        rows = []
        for expr, arrow in alts:
            txt = ptm(expr, True)
            if arrow:
                txt += " -> " + arrow
            rows.append(txt)
        ty = g.get("nt_types", {}).get(name)
        body.append("%s%s :\n    %s\n;" % (name, (" {%s}" % ty) if ty else "", "\n  | ".join(rows)))
    gg = dict(g)
    gg["body"] = "\n".join(body)
    if g.get("named_sets"):
        from vlib import setref
        gg["extra"] = (gg.get("extra") or "") + "\n".join("%%generate %s = set(%s);" % (n, setref.ptm_set(e)) for n, e in g["named_sets"])
    return grammars.print_tm(gg, opts)


def nodeconst(name, symid):
    """The generated NodeType constant; a node type the generated listener lacks (possible only when the tree under test dropped every rule
    reporting it) becomes a value no event can carry, so that the harness still builds and the missing events show up as a violation."""
    known = symid.get("#nodetypes")
    if known is None or name in known:
        return "int(%s)" % name
    return "%d" % (-1000 - sum(map(ord, name)))


def pgo(e, symid, ntidx):
    k = e[0]
    if k == "t":
        return "verifT(%d)" % symid[e[1]]
    if k == "n":
        return "verifN(%d)" % ntidx[e[1]]
    if k == "seq":
        return "verifSeq(%s)" % ", ".join(pgo(x, symid, ntidx) for x in e[1])
    if k == "opt":
        return "verifOpt(%s)" % pgo(e[1], symid, ntidx)
    if k == "alt":
        return "verifAlt(%s)" % ", ".join(pgo(x, symid, ntidx) for x in e[1])
    if k == "list":
        return "verifList(%s, %s%s)" % (pgo(e[1], symid, ntidx), "true" if e[3] else "false", "".join(", %d" % symid[s] for s in e[2]))
    if k == "arrow":
        return "verifArrow(%s, %s)" % (nodeconst(e[1], symid), pgo(e[2], symid, ntidx))
    if k == "set":
        return "verifSetOf(%s)" % ", ".join(str(symid[t]) for t in e[1])
    if k == "empty":
        return "verifSeq()"
    if k == "marker":
        return "verifMarker()"
    if k == "la":
        return "verifLook([]int{%s}, []bool{%s})" % (", ".join(str(ntidx[nt]) for nt, _ in e[1]), ", ".join("true" if neg else "false" for _, neg in e[1]))
    if k == "setx":
        vals = symid["#setvalues"]
        v = vals.pop(0)
        return "verifSetOf(%s)" % ", ".join(str(symid[t]) for t in v)
    if k == "alias":
        return "verifAlias(%s, %s)" % (json.dumps(e[1]), pgo(e[2], symid, ntidx))
    if k == "act":
        return "verifAction(%d, []verifRefArg{%s})" % (e[1], ", ".join("{%s, %s}" % (json.dumps(n), json.dumps(pr)) for n, pr in e[2]))
    raise ValueError(k)


def data_file(g, meta, pkgname):
    symid = {name: i for i, name in enumerate(meta["syms"])}
    ntidx = {name: i for i, (name, _) in enumerate(g["nts"])}
    if meta.get("range_types"):
        symid["#nodetypes"] = set(meta["range_types"])
    if g.get("uses_sets"):
        from vlib import setref
        vals, named = setref.evaluate(g, meta["syms"][:meta["num_tokens"]])
        symid["#setvalues"] = list(vals)
        g["_ref_named_sets"] = named
    terms = [symid[t] for t in g["terms"] if not g.get("input_terms") or t in g["input_terms"]]
    L = ["package " + pkgname, "", "// printed by vlib/extgram.py from corpus grammar %s" % g["name"], ""]
    L.append("var verifTerms = []int32{%s}" % ", ".join(map(str, terms)))
    rendered = {id(e): pgo(e, symid, ntidx) for _, alts in g["nts"] for e, _ in alts}
    uses_la = "verifLook(" in "".join(rendered.values())
    L.append("const verifUsesLookaheads = %s" % ("true" if uses_la else "false"))
    L.append("var verifBodies []*verifNode")
    L.append("var verifRuleArrow [][]int")
    L.append("func verifSetup() {\n\tif verifBodies != nil {\n\t\treturn\n\t}")
    if g.get("term_types"):
        alt = [symid[t] for t, ty in g["term_types"].items() if ty == "verifAltVal"]
        L.append("\tverifValueOf = func(tok int32, index int) interface{} {\n\t\tif %s {\n\t\t\treturn verifAltVal(index)\n\t\t}\n\t\treturn index\n\t}" % " || ".join("tok == %d" % a for a in alt))
    for name, alts in g["nts"]:
        L.append("\tverifBodies = append(verifBodies, verifAlt(%s))" % ", ".join(rendered[id(e)] for e, _ in alts))
        L.append("\tverifRuleArrow = append(verifRuleArrow, []int{%s})" % ", ".join(nodeconst(a, symid) if a else "0" for _, a in alts))
    L.append("}")
    L.append("var verifInputs = []struct {\n\tnt    int\n\tnoeoi bool\n}{%s}" % ", ".join(
        "{%d, %s}" % (ntidx[nt], "true" if noeoi else "false") for nt, noeoi in g["inputs"]))
    user_inputs = [i for i in meta["inputs"] if not i["synthetic"]]
    multi = len(user_inputs) > 1
    cases = []
    canc = bool(g.get("opts", {}).get("cancellable"))
    for k, (nt, noeoi) in enumerate(g["inputs"]):
        fn = "Parse" + (meta["sym_ids"][symid[nt]] if multi else "")
        cases.append("\tcase %d:\n\t\treturn p.%s(%sl)" % (k, fn, "ctx, " if canc else ""))
    if canc:
        # cancellable parsers take a context: one that is never cancelled (cancellation itself is C29)
        L[0] = "package " + pkgname + "\n\nimport (\n\t\"context\"\n\t\"time\"\n)"
        L.append("type verifBgCtx struct{ open chan struct{} }\n"
                 "func (v *verifBgCtx) Deadline() (time.Time, bool) { return time.Time{}, false }\n"
                 "func (v *verifBgCtx) Value(key any) any           { return nil }\n"
                 "func (v *verifBgCtx) Done() <-chan struct{}       { return v.open }\n"
                 "func (v *verifBgCtx) Err() error                  { return nil }\n"
                 "var _ context.Context = (*verifBgCtx)(nil)")
    L.append("func verifParse(p *Parser, l *Lexer, input int) error {\n%s\tswitch input {\n%s\n\t}\n\tpanic(\"bad input index\")\n}" % (
        "\tctx := &verifBgCtx{open: make(chan struct{})}\n" if canc else "", "\n".join(cases)))
    L.append("func verifInit(p *Parser) {\n\tverifEvents = nil\n\tp.Init(func(t NodeType, s, e int) { verifListen(int(t), s, e) })\n}")
    return "\n".join(L) + "\n"


# ---------------------------------------------------------------------------------------------
# corpus: annotation shapes (C02) and notation forms (C13)

def EG(name, terms, inputs, nts, **kw):
    g = {"name": name, "terms": list(terms), "inputs": [(i, False) if isinstance(i, str) else i for i in inputs], "nts": nts}
    g.update(kw)
    return g


EXT = [
    # rule-level arrows
    EG("x01", "ab", ["Sx"], [("Sx", [(seq("Xa", "Xa"), "Root")]), ("Xa", [(seq("a", "Xa"), "ARec"), (seq("b"), "ALeaf")])]),
    # arrows on sub-sequences, inside optionals
    EG("x02", "abc", ["Sx"], [("Sx", [(S(T("a"), O(AR("Inner", S(T("b"), T("b")))), T("c")), "Outer")])]),
    # nested choice with arrows on branches
    EG("x03", "abcd", ["Sx"], [("Sx", [(S(T("a"), A(AR("Bb", T("b")), AR("Cd", S(T("c"), T("d")))), T("a")), "Top")])]),
    # lists with and without separators; arrow on elements
    EG("x04", "abc", ["Sx"], [("Sx", [(S(L(AR("Item", T("a")), True, ["c"]), T("b")), "ListTop")])]),
    EG("x05", "ab", ["Sx"], [("Sx", [(S(L(N("It"), False), T("b")), "Star")]), ("It", [(seq("a"), "It1")])]),
    # two arrows ending at the same symbol; arrow on an empty alternative
    EG("x06", "abc", ["Sx"], [("Sx", [(S(T("a"), AR("In1", AR("In2", T("b")))), "Both"), (S(T("c"), N("Ey")), "WithEmpty")]), ("Ey", [(("seq", []), "EmptyNode")])]),
    # left recursion with annotations on every level
    EG("x07", "pa", ["Sx"], [("Sx", [(seq("Ex"), "Top")]), ("Ex", [(seq("Ex", "p", "Tx"), "Add"), (seq("Tx"), None)]), ("Tx", [(seq("a"), "Atom")])]),
    # optional at the beginning and at the end, nested optionals
    EG("x08", "abc", ["Sx"], [("Sx", [(S(O(AR("Lead", T("a"))), T("b"), O(S(T("c"), O(AR("Tail", T("c")))))), "Rule")])]),
    # plus-list of a nested choice
    EG("x09", "abcd", ["Sx"], [("Sx", [(S(L(A(AR("Ia", T("a")), AR("Ibc", S(T("b"), T("c")))), True), T("d")), "Plus")])]),
    # right-recursive list written by hand next to a star list
    EG("x10", "abc", ["Sx"], [("Sx", [(S(N("Rl"), L(T("c"), False)), "Top")]), ("Rl", [(seq("a", "Rl"), "Cons"), (seq("b"), "Nil")])]),
]

EXT += [
    # two lists whose elements differ only in the node name
    EG("x11", "axy", ["Sx"], [("Sx", [(S(T("x"), L(AR("Foo", T("a")), True), T("y"), L(AR("Bar", T("a")), True)), "Top")])]),
    # an empty annotated part that is not the first symbol of its rule
    EG("x12", "abc", ["Sx"], [("Sx", [(S(T("a"), AR("Opt", O(T("b"))), T("c")), "Top")])]),
    EG("x13", "abc", ["Sx"], [("Sx", [(S(T("a"), T("b"), AR("Mid", O(T("c"))), AR("Also", O(T("a"))), T("b")), "Top")])]),
    # rules ending in a nullable symbol followed by a state marker
    EG("x14", "abc", ["Sx"], [("Sx", [(S(L(N("It"), True), T("c")), "Top")]), ("It", [(S(T("a"), N("Nb"), ("marker", "mk")), "Item")]), ("Nb", [(S(AR("Bs", L(T("b"), True))), None), (("seq", []), None)])]),
]

# notation forms for C13 (no annotations needed; every nonterminal still reports so that reductions are visible)
EXT13 = [
    EG("y01", "abc", ["Sx"], [("Sx", [(S(O(T("a")), O(T("b")), O(T("c"))), "R")])]),
    EG("y02", "abcd", ["Sx"], [("Sx", [(S(L(S(T("a"), O(T("b"))), False), T("c")), "R")])]),
    EG("y03", "abcd", ["Sx"], [("Sx", [(S(T("a"), O(S(T("b"), O(S(T("c"), O(T("d")))))), T("a")), "R")])]),                     # nesting depth 3
    EG("y04", "abcs", ["Sx"], [("Sx", [(S(L(L(T("a"), True), True, ["s"]), T("b")), "R")])]),                                       # list of lists
    EG("y05", "abcs", ["Sx"], [("Sx", [(S(O(L(N("El"), True, ["s", "s"])), T("c")), "R")]), ("El", [(seq("a"), "E1"), (seq("b", "b"), "E2")])]),  # two-token separator
    EG("y06", "abc", ["Sx"], [("Sx", [(S(A(T("a"), S(T("b"), T("c")), ("seq", [])), T("a")), "R")])]),                              # choice with an empty branch
    EG("y07", "abcd", ["Sx"], [("Sx", [(S(("set", ["a", "b"], "set(a | b)"), L(("set", ["c", "d"], "set(c | d)"), False), T("a")), "R")])]),
    EG("y08", "abc", ["Sx", "Lx"], [("Sx", [(S(N("Lx"), T("c")), "R")]), ("Lx", [(S(L(A(T("a"), T("b")), True)), "Ls")])]),
    EG("y09", "abc", ["Sx"], [("Sx", [(S(T("a"), L(S(T("b"), L(T("c"), False)), True, ["a"])), "R")])]),                            # star list inside a separated plus list
    EG("y10", "ab", [("Sx", True)], [("Sx", [(S(L(T("a"), True), T("b")), "R")])]),                                                  # no-eoi input
    # two separated lists with the same element and different separators; a list inside the first-declared, self-referencing nonterminal
    EG("y11", "abcd", ["Sx"], [("Sx", [(S(L(T("a"), True, ["b", "c"]), T("d")), "R1"), (S(T("d"), L(T("a"), True, ["c", "b"])), "R2")])], cap=1100),
    EG("y12", "abcd", ["Sx"], [("Sx", [(S(L(T("a"), True), T("b")), "R1"), (S(T("c"), N("Sx"), T("d")), "R2")])]),
]


def LA(*preds):
    return ("la", [(p.lstrip("!"), p.startswith("!")) for p in preds])


# runtime lookaheads (C08): the choice between alternatives is made by parsing ahead with the predicate nonterminals
EXTLA = [
    EG("z01", "abcd", ["Sx"], [("Sx", [(S(LA("Pa"), N("Mx")), "AltM"), (S(LA("!Pa"), N("Nx")), "AltN")]),
                                ("Pa", [(seq("a", "b"), None)]),
                                ("Mx", [(S(T("a"), L(A(T("a"), T("b"), T("c")), False)), "M")]),
                                ("Nx", [(S(T("a"), L(A(T("a"), T("b"), T("c")), False), T("d")), "N")])]),
    EG("z02", "abcd", ["Sx"], [("Sx", [(S(LA("Pa", "Pb"), N("Xx")), "AltX"), (S(LA("Pa", "!Pb"), N("Yy")), "AltY"), (S(LA("!Pa"), N("Zz")), "AltZ")]),
                                ("Pa", [(seq("a", "a"), None)]), ("Pb", [(seq("a", "a", "b"), None)]),
                                ("Xx", [(S(T("a"), T("a"), T("b"), O(T("c"))), "X")]), ("Yy", [(S(T("a"), T("a"), L(A(T("a"), T("c")), True)), "Y")]),
                                ("Zz", [(S(T("a"), L(T("b"), True)), "Z1"), (S(T("a"), T("d")), "Z2")])]),
    EG("z03", "abc", ["Sx"], [("Sx", [(S(L(N("It"), True), T("c")), "Top")]),
                               ("It", [(S(LA("Qq"), T("a"), T("a")), "Pair"), (S(LA("!Qq"), T("a")), "Single"), (seq("b"), "B")]),
                               ("Qq", [(seq("a", "a", "b"), None), (seq("a", "a", "c"), None)])]),
]


# the cancellable variant of the generated decision code is a separate template branch: same grammar as z02
EXTLA.append(dict(EXTLA[1], name="z04", opts={"cancellable": True}))


def AL(name, e):
    return ("alias", name, auto(e))


def ACT(id, *refs):
    """refs: 'x.offset', 'x.endoffset', 'x' (value), with x an alias/symbol name or first()/last()/left()."""
    out = []
    for r in refs:
        if "." in r and not r.endswith(")"):
            n, pr = r.rsplit(".", 1)
        elif ")." in r:
            n, pr = r.rsplit(".", 1)
        else:
            n, pr = r, "value"
        out.append((n, pr))
    return ("act", id, out)


def typed(g):
    """Values live on the parser stack only if some nonterminal has a type: route the input through a typed nonterminal."""
    nts = []
    for name, alts in g["nts"]:
        nts.append(("Bd" if name == "Sx" else name, [(rename(e), a) for e, a in alts]))
    g = dict(g, nts=[("Sx", [(S(N("Bd")), None)])] + nts, nt_types={"Bd": "int"}, typed_terms=True)
    return g


def rename(e):
    k = e[0]
    if k == "n":
        return ("n", "Bd" if e[1] == "Sx" else e[1])
    if k in ("seq", "alt"):
        return (k, [rename(x) for x in e[1]])
    if k == "opt":
        return (k, rename(e[1]))
    if k == "list":
        return (k, rename(e[1]), e[2], e[3])
    if k in ("arrow", "alias"):
        return (k, e[1], rename(e[2]))
    return e


# semantic action references (C16). Terminals carry {int} values (the stub lexer's Value() is the token index).
EXTACT_RAW = [
    EG("v01", "abc", ["Sx"], [("Sx", [(S(AL("x", "a"), AL("y", "b"), ACT(1, "x.offset", "x.endoffset", "y.offset", "y", "x", "first().offset", "last().endoffset")), "R")])], typed_terms=True),
    # mid-rule action and end action; an optional part referenced when present and when absent
    EG("v02", "abc", ["Sx"], [("Sx", [(S(AL("x", "a"), ACT(1, "x.offset", "x"), O(AL("o", "b")), AL("z", "c"), ACT(2, "o.offset", "o.endoffset", "o", "z.offset", "x.endoffset", "last().endoffset")), "R")])], typed_terms=True),
    # nested choice: each branch names a different symbol
    EG("v03", "abcd", ["Sx"], [("Sx", [(S(T("a"), A(AL("p", "b"), S(AL("q", "c"), AL("r", "d"))), T("a"), ACT(1, "p.offset", "p", "q.offset", "r.endoffset", "r", "first().offset")), "R")])], typed_terms=True),
    # lists: the alias spans several symbols (offset of the first, endoffset of the last element)
    EG("v04", "abc", ["Sx"], [("Sx", [(S(T("c"), AL("l", L(T("a"), True, ["b"])), T("c"), ACT(1, "l.offset", "l.endoffset", "first().endoffset", "last().offset")), "R")])], typed_terms=True),
    # references through nonterminals, left-recursive accumulation
    EG("v05", "pa", ["Sx"], [("Sx", [(S(N("Ex")), "Top")]),
                              ("Ex", [(S(AL("l", N("Ex")), AL("op", "p"), AL("r", N("Tx")), ACT(1, "l.offset", "l.endoffset", "op.offset", "op", "r.offset", "r.endoffset")), "Add"), (S(N("Tx"), ACT(2, "first().offset")), None)]),
                              ("Tx", [(S(AL("v", "a"), ACT(3, "v", "v.offset")), "Atom")])], typed_terms=True),
    # two optionals and an action between them
    EG("v06", "abcd", ["Sx"], [("Sx", [(S(O(AL("h", "a")), AL("m", "b"), ACT(1, "h.offset", "h", "m.offset"), O(S(AL("t1", "c"), O(AL("t2", "d")))), AL("z", "b"),
                                          ACT(2, "h.endoffset", "t1.offset", "t2.offset", "t2", "m.endoffset", "z.offset", "last().offset")), "R")])], typed_terms=True),
]

EXTACT_RAW += [
    # a state marker in front of referenced symbols (markers occupy no stack slot)
    EG("v07", "abc", ["Sx"], [("Sx", [(S(AL("x", "a"), ("marker", "mk"), AL("y", "b"), AL("z", "c"), ACT(1, "x.offset", "y", "y.offset", "y.endoffset", "z", "z.endoffset", "last().offset")), "R")])], typed_terms=True),
    # a mid-rule action after an optional unnamed list: the two expansions need different stack offsets for the same names
    EG("v08", "abcd", ["Sx"], [("Sx", [(S(AL("p", "d"), AL("q", "b"), O(L(T("a"), True)), ACT(1, "q", "q.offset", "p", "p.endoffset"), AL("z", "c"), ACT(2, "z.offset", "q.endoffset", "p.offset")), "R")])], typed_terms=True),
]

EXTACT_RAW += [
    # an alias over a nested choice whose alternatives carry differently typed symbols: the value is read with the type of the alternative taken
    EG("v09", "abnc", ["Sx"], [("Sx", [(S(T("a"), AL("x", A(T("b"), T("n"))), AL("z", "c"), ACT(1, "x", "x.offset", "x.endoffset", "z")), "R")])], typed_terms=True, term_types={"n": "verifAltVal"}),
]

EXTACT = [typed(g) for g in EXTACT_RAW]


def SX(e):
    return ("setx", e)


# token sets (C15): set(...) inside rules and %generate sets; every set is evaluated by vlib/setref.py
EXTSETS = [
    EG("s01", "abcd", ["Sx"], [("Sx", [(S(N("Ax"), SX(("first", "Bx")), N("Bx")), "R")]), ("Ax", [(seq("a"), None), (seq("b", "Ax"), None)]), ("Bx", [(seq("c"), None), (seq("d", "c"), None)])],
       uses_sets=True, named_sets=[("firstA", ("first", "Ax")), ("followA", ("follow", "Ax")), ("lastB", ("last", "Bx"))]),
    EG("s02", "abcd", ["Sx"], [("Sx", [(S(T("a"), L(SX(("and", [("not", ("any", "a")), ("not", ("any", "eoi")), ("not", ("any", "invalid_token"))])), False), T("a")), "R")])],
       uses_sets=True, named_sets=[("notA", ("not", ("any", "a")))]),
    EG("s03", "abcde", ["Sx"], [("Sx", [(S(N("Px"), T("e"), N("Qx")), "R")]), ("Px", [(S(N("Ix")), None), (S(N("Px"), T("c"), N("Ix")), None)]), ("Ix", [(seq("a", "b"), None), (seq("b"), None)]),
                                 ("Qx", [(S(SX(("precede", "Ix")), T("d")), None), (S(T("d"), SX(("follow", "Ix"))), None)])],
       uses_sets=True, named_sets=[("precI", ("precede", "Ix")), ("follI", ("follow", "Ix")), ("anyP", ("any", "Px")), ("lastP", ("last", "Px")),
                                   ("mix", ("or", [("ref", "precI"), ("and", [("ref", "anyP"), ("not", ("first", "Ix"))])]))]),
    # a set that feeds its own definition: precede Ix is taken through the very set(...) occurrence that uses it. The least solution is empty;
    # the compiler treats the set occurrence as nullable while resolving and answers {b, c} (KNOWN_FINDINGS.txt)
    EG("s05", "abcd", ["Sx"], [("Sx", [(S(N("Lx"), T("d")), "R")]), ("Lx", [(S(N("Ix")), None), (S(N("Lx"), SX(("precede", "Ix")), N("Ix")), None)]), ("Ix", [(seq("a", "b"), None), (seq("c"), None)])],
       uses_sets=True, known="set-occurrence-treated-as-nullable"),
    # follow through nullable nonterminals up to the end of a rule: what follows the rule follows the symbol
    EG("s06", "abcd", ["Sx"], [("Sx", [(S(N("Fx"), T("d"), N("Qx")), "R")]), ("Fx", [(S(T("a"), T("b"), N("Tl"), N("Tm")), None)]), ("Tl", [(seq("c"), None), (("seq", []), None)]), ("Tm", [(seq("a"), None), (("seq", []), None)]),
                                 ("Qx", [(S(SX(("follow", "b"))), None)])],
       uses_sets=True, named_sets=[("follB", ("follow", "b")), ("follT", ("follow", "Tl")), ("lastF", ("last", "Fx")), ("precD", ("precede", "d"))]),
    # a nonterminal whose only empty alternative carries a semantic action is nullable
    EG("s07", "abcd", ["Sx"], [("Sx", [(S(T("a"), N("Fx"), T("d"), N("Qx")), "R")]), ("Fx", [(S(N("Op"), T("b"), N("Op")), None)]), ("Op", [(seq("c"), None), (S(("act", 5, [])), None)]),
                                 ("Qx", [(S(SX(("first", "Fx"))), None), (S(T("a"), SX(("last", "Fx"))), None)])],
       uses_sets=True, named_sets=[("firstF", ("first", "Fx")), ("lastF", ("last", "Fx")), ("follO", ("follow", "Op")), ("precO", ("precede", "Op"))]),
    EG("s04", "abcd", ["Sx"], [("Sx", [(S(O(T("a")), N("Nx"), T("c"), N("Tx")), "R")]), ("Nx", [(("seq", []), None), (seq("b", "Nx"), None)]),
                                ("Tx", [(S(SX(("follow", "Nx")), T("a")), None), (S(SX(("and", [("not", ("first", "Sx")), ("not", ("any", "eoi")), ("not", ("any", "invalid_token"))]))), None)])],
       uses_sets=True, named_sets=[("follN", ("follow", "Nx")), ("firstN", ("first", "Nx")), ("firstS", ("first", "Sx")), ("comp", ("not", ("or", [("ref", "follN"), ("ref", "firstN")])))]),
]
