#!/bin/bash
# usage: run1.sh <pkgdir-rel> <pkgname> <harness.go> <entry> [extra symgo flags]
export GOFLAGS=-mod=mod GOPROXY=off GOSUMDB=off GOTOOLCHAIN=local PATH=/opt/veriftools/go1.26.8/bin:$PATH
REL=$1; PKG=$2; H=$3; ENTRY=$4; shift 4
S=$(mktemp -d /var/tmp/vs.XXXX)
sed "s/PKG/$PKG/" /verif/harness/prelude.go.txt > $S/prelude.go
cp $H $S/h.go
cat > $S/ov.json <<EOT
{"Replace": {"/repo/$REL/zz_verif_prelude.go": "$S/prelude.go", "/repo/$REL/zz_verif_h.go": "$S/h.go"}}
EOT
timeout ${TMO:-300} /verif/bin/symgo -dir /repo -overlay $S/ov.json -pkg ./$REL -entry github.com/inspirer/textmapper/$REL.$ENTRY -out $S/out.json "$@"
echo exit=$?
python3 - <<EOT
import json
try:
  r=json.load(open('$S/out.json'))['results'][0]
  for k in ['outcomes','asserts','caps_hit','stats','queries','init_bad']: print(k, r[k])
  for v in r['violations'][:4]: print('VIOL', v)
except Exception as ex: print('no output', ex)
EOT
rm -rf $S
